#!/bin/bash
# Builds /verif/.venv: an overlay venv on /venv's interpreter that sees /venv's
# site-packages and /repo, plus crosshair-tool / z3-solver / cvc5 from the offline wheelhouse.
set -e
cd "$(dirname "$0")"
export PIP_NO_INDEX=1 PIP_DISABLE_PIP_VERSION_CHECK=1
if [ ! -x .venv/bin/python ] || ! .venv/bin/python -c "import crosshair, z3, hippolyzer" >/dev/null 2>&1; then
  rm -rf .venv
  /venv/bin/python -m venv .venv
  SP=$(.venv/bin/python -c "import site;print(site.getsitepackages()[0])")
  printf "import site; site.addsitedir('/venv/lib/python3.12/site-packages')\n/repo\n" > "$SP/verif.pth"
  .venv/bin/pip install -q --no-index --find-links /opt/veriftools/wheels crosshair-tool z3-solver cvc5 jsonschema >/dev/null
fi
.venv/bin/python -c "import crosshair, z3, hippolyzer; print('verif venv ok', crosshair.__version__, z3.get_version_string())"
