#!/usr/bin/env python3
"""tools/seed_confirm.py [seed...] — re-run, against the CURRENT harness, the obligations that caught each seeded change
(taken from the last full run's log in /tmp/seedres, or from the MANUAL map for changes that needed a strengthened check),
in a scratch worktree (never /repo), and write seeded/RESULTS.json.  Development tool; not used by the registered checks."""
import glob, json, os, re, subprocess, sys
from concurrent.futures import ThreadPoolExecutor
ROOT = "/verif"
MANUAL = {
 "C01-m1": ["block_count_boundary"], "C01-m2": ["zerocoded_long_extra"], "C10-m2": ["*ENDS_SYMDUR"],
 "C02-m2": ["zerocoded_small_probe"], "C02-m3": ["parsed_identity__AgentAlertMessage__lazy"],
 "C05-m1": ["histories3__fwd"], "C06-m3": ["lifecycle3__first_ucc"], "C07-m1": ["handler_isolation__session_sub_0"],
 "C07-m3": ["handler_isolation__session_sub_0"], "C15-m3": ["two_hop_ownership"],
 "C16-m1": ["temporary_consumption_order*"], "C16-m2": ["seed_adjacent_proxy_caps"], "C16-m3": ["cap_histories2__proxy__proxy"],
 "C17-m2": ["repoll__undef_then_0"], "C17-m3": ["regions__EnableSimulator"],
 "C19-m2": ["reliable_send_completion__packetack_plus_appended*"], "C12-m1": ["binary_roundtrip__leaf"],
 "C13-m1": ["decoders_agree__flags_003__prim"], "C20-m3": ["mesh_segment_trees"],
 "C06b-m1": ["named_message_transparency"], "C05b-m2": ["resend_cadence"], "C16b-m1": ["regrant_order"],
 "C16b-m2": ["wrapper_caps_two_sessions"], "C02b-m2": ["parsed_identity__ViewerFrozenMessage__lazy"],
 "C03b-m1": ["long_runs_roundtrip__tail0"], "C03b-m2": ["cap_whole"], "C08b-m1": ["flag_switch__U8", "flag_switch__S16"],
 "C12b-m1": ["binary_roundtrip__map", "binary_roundtrip__nested"], "C13b-m2": ["decoders_agree__flags_0a0__prim"],
 "C16c-m2": ["seed_adjacent_proxy_caps"], "C06c-m2": ["pre_session_datagrams"], "C02c-m2": ["zerocoded_overcap_forwardable"],
 "C12c-m1": ["binary_roundtrip__leaf"],
 "C08c-m1": ["typed_bytes__U8", "typed_bytes__S16"], "C08c-m2": ["limit_lengths__StrFixed"],
 "C02c-m1": ["@C03", "long_runs_roundtrip__tail0"],
 "C19d-m1": ["acks_on_retransmission"], "C19d-m2": ["event_notify_matrix__one_shot", "event_notify_matrix__returns_true"],
 "C07d-m2": ["event_notify_matrix__self_unsub_then_true", "event_notify_matrix__returns_unboolable"],
 "C18d-m1": ["subfield_glob_filter__lt", "subfield_glob_filter__and"], "C17d-m2": ["teardown_requeue__undef_then_0", "teardown_requeue__undef_then_3"],
 "C09d-m1": ["te_face_bitfield__pairs"], "C09d-m2": ["block_cache_isolation"], "C01d-m2": ["T_ImprovedInstantMessage"],
 "C18-m2": ["val_matches_matrix__startswith__*", "val_matches_matrix__endswith__*"],
 "regress-C18-inapplicable": ["val_matches_matrix__startswith__*", "val_matches_matrix__contains__*"],
 "C09-m2": ["payload_mut_TextureEntrySubfieldSerializer"], "C09-m1": ["payload_mut_PSBlockSerializer"],
 "regress-C12-quat-uri": ["L_AgentUpdate", "binary_roundtrip__leaf"], "regress-C16-proxy-cap": ["seed_rewriting", "cap_histories2__proxy__proxy"],
 "regress-C05-packetack-leak": ["histories3__fwd"], "regress-C19-region-dedupe": ["ack_and_dedupe"],
 "regress-C07-queued-dropped": ["two_addons__first_0", "two_addons__first_3", "handler_isolation__session_sub_7"],
}
NOT_STRENGTHENED = {"C09d-m2", "C01d-m2", "C19d-m1", "C19d-m2", "C07d-m2", "C18d-m1", "C17d-m2", "C09d-m1", "C18-m2", "regress-C18-inapplicable", "C09-m1", "regress-C12-quat-uri", "regress-C16-proxy-cap", "regress-C05-packetack-leak", "regress-C19-region-dedupe", "regress-C07-queued-dropped"}
STRENGTHENED = {"C09d-m2", "C01d-m2", "C19d-m1", "C19d-m2", "C07d-m2", "C18d-m1", "C17d-m2", "C09d-m1", "C08c-m1", "C08c-m2", "C16c-m2", "C06c-m2", "C02c-m2", "C12c-m1", "C03b-m1", "C03b-m2", "C08b-m1", "C12b-m1", "C13b-m2", "C06b-m1", "C05b-m2", "C16b-m1", "C16b-m2", "C02b-m2", "C01-m1", "C01-m2", "C10-m2", "C02-m2", "C02-m3", "C05-m1", "C06-m3", "C07-m1", "C07-m3", "C15-m3", "C16-m1", "C16-m2",
                "C16-m3", "C17-m2", "C17-m3", "C19-m2", "C12-m1", "C13-m1", "C20-m3", "C09-m2"}
head = subprocess.run("git -C /repo rev-parse HEAD", shell=True, capture_output=True, text=True).stdout.strip()


def candidates(seed):
    if seed in MANUAL:
        return MANUAL[seed]
    p = f"/tmp/seedres/{seed}.log"
    names = []
    if os.path.exists(p):
        for m in re.finditer(r"^(?:  obligation ([^:]+):|\[C\d\d\] ([^ :]+): violation)", open(p).read(), re.M):
            n = m.group(1) or m.group(2)
            if n not in names:
                names.append(n)
    return names[:2]


def run(args):
    slot, seed = args
    wt = f"/tmp/wt/S{slot}"
    if not os.path.isdir(wt):
        subprocess.run(f"git -C /repo worktree add --detach {wt} HEAD", shell=True, capture_output=True)
    subprocess.run(f"git -C {wt} checkout -q -- . ; git -C {wt} checkout -q --detach {head}", shell=True)
    meta = json.load(open(f"{ROOT}/seeded/{seed}/meta.json"))
    prop = meta["property"] if isinstance(meta["property"], str) else meta["property"][0]
    cands = candidates(seed)
    other = None
    if cands and cands[0].startswith("@"):
        other, cands = cands[0][1:], cands[1:]
        prop = other
    if not cands:
        return seed, {"result": "MISSED (no obligation of the quick tier refuted it in the last full run)"}
    r = subprocess.run(f"git -C {wt} apply {ROOT}/seeded/{seed}/patch.diff", shell=True, capture_output=True, text=True)
    if r.returncode:
        return seed, {"result": "patch does not apply to the current tree"}
    out = f"/tmp/seedout/confirm-{seed}"
    env = dict(os.environ, VERIF_REPO=wt, VERIF_OUT_DIR=out, VERIF_JOBS="4")
    r = subprocess.run([f"{ROOT}/check", prop, "--tier", "quick", "--only", ",".join(cands)], cwd=ROOT, env=env,
                       capture_output=True, text=True)
    subprocess.run(f"git -C {wt} checkout -q -- .", shell=True)
    text = r.stdout + r.stderr
    caught = []
    for m in re.finditer(r"^  obligation ([^:]+):", text, re.M):
        if m.group(1) not in caught:
            caught.append(m.group(1))
    res = {"result": "CAUGHT" if (r.returncode == 1 and caught) else f"NOT CAUGHT by {cands} (exit {r.returncode})", "caught_by": caught}
    if seed in STRENGTHENED:
        res["note"] = "missed at first; check strengthened"
    if other:
        res["note"] = f"not caught by its own property's check; caught by the {other} check (the change is in code {other} owns)"
    return seed, res


def main():
    seeds = sys.argv[1:] or sorted(os.path.basename(os.path.dirname(p)) for p in glob.glob(f"{ROOT}/seeded/*/meta.json"))
    res_p = f"{ROOT}/seeded/RESULTS.json"
    results = json.load(open(res_p)) if os.path.exists(res_p) else {}
    slots = 3
    work = [(i % slots, s) for i, s in enumerate(seeds)]
    # one worktree per slot: run slot-wise sequentially, slots in parallel
    def slot_runner(k):
        out = []
        for sl, s in work:
            if sl == k:
                out.append(run((sl, s)))
                print(out[-1], flush=True)
        return out
    with ThreadPoolExecutor(slots) as ex:
        for lst in ex.map(slot_runner, range(slots)):
            for s, r in lst:
                results[s] = r
    json.dump(results, open(res_p, "w"), indent=1, sort_keys=True)


main()
