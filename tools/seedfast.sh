#!/bin/bash
# tools/seedfast.sh <seed-dir> <PROP> <jobs> : run PROP's quick check against seeded/<seed-dir>/patch.diff applied in a private
# scratch worktree (/tmp/wt/run-<seed>, never /repo); stop as soon as one obligation reports a violation (first-sight catch),
# else let the whole check finish.  Log: /tmp/seedres/<seed>.log.  Development tool; not used by the registered checks.
S=$1; P=$2; J=${3:-8}
WT=/tmp/wt/run-$S; mkdir -p /tmp/seedres /tmp/seedout/$S
git -C /repo worktree add -q --detach $WT HEAD || exit 2
git -C $WT apply /verif/seeded/$S/patch.diff || { echo "$S: patch does not apply" > /tmp/seedres/$S.log; git -C /repo worktree remove --force $WT; exit 2; }
cd /verif
VERIF_REPO=$WT VERIF_OUT_DIR=/tmp/seedout/$S VERIF_JOBS=$J setsid nice -n 5 bash -c "./check $P --tier quick > /tmp/seedres/$S.log 2>&1; echo exit=\$? >> /tmp/seedres/$S.log" &
PG=$!
while kill -0 $PG 2>/dev/null; do
  if grep -q "^\[$P\] [^ ]*: violation" /tmp/seedres/$S.log 2>/dev/null; then
    sleep 2; kill -TERM -- -$PG 2>/dev/null; sleep 1; kill -KILL -- -$PG 2>/dev/null
    echo "stopped-early: violation seen" >> /tmp/seedres/$S.log; break
  fi
  sleep 3
done
wait 2>/dev/null
git -C /repo worktree remove --force $WT
rm -rf /tmp/seedout/$S
echo "== $S"; grep -E "violation|^exit=|stopped-early|tier=" /tmp/seedres/$S.log | cut -c1-300 | head -8
