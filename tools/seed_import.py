#!/usr/bin/env python3
"""tools/seed_import.py <PROP> <mN> [<worktree>] — confirm a sub-agent's seeded change in its scratch worktree
(applies, existing suite unchanged, demo fails with / passes without) and copy it to /verif/seeded/<PROP>-<mN>/."""
import json, os, shutil, subprocess, sys
prop, m = sys.argv[1], sys.argv[2]
wt = sys.argv[3] if len(sys.argv) > 3 else f"/tmp/wt/{prop}"
src = f"/tmp/wt/{prop}-out/{m}"
dst = f"/verif/seeded/{prop}-{m}"
env = dict(os.environ, PYTHONPATH=wt)
def run(cmd, **kw):
    return subprocess.run(cmd, shell=True, cwd=wt, env=env, capture_output=True, text=True, **kw)
run("git checkout -- . && git clean -fdq")
r = run(f"/venv/bin/python {src}/demo.py"); base_demo = r.returncode
r = run(f"git apply {src}/patch.diff")
if r.returncode: print("PATCH DOES NOT APPLY", r.stderr); sys.exit(1)
t = run("/venv/bin/python -m pytest -q -p no:cacheprovider --timeout=900 2>&1 | tail -3")
summary = [l for l in t.stdout.splitlines() if "passed" in l or "failed" in l]
r = run(f"/venv/bin/python {src}/demo.py"); mut_demo = r.returncode
run("git checkout -- . && git clean -fdq")
ok = base_demo == 0 and mut_demo != 0 and summary and "331 passed" in summary[-1] and "1 failed" in summary[-1]
print(f"{prop}-{m}: demo unpatched rc={base_demo}, patched rc={mut_demo}, suite: {summary[-1] if summary else '?'} -> {'CONFIRMED' if ok else 'REJECTED'}")
if ok:
    os.makedirs(dst, exist_ok=True)
    for f in ("patch.diff", "demo.py", "notes.md"):
        shutil.copy(os.path.join(src, f), dst)
    notes = open(os.path.join(src, "notes.md")).read()
    import re
    base = re.sub(r"[a-z]$", "", prop)
    rnd = {"": "", "b": " (second round)", "c": " (third round)", "d": " (fourth round)"}.get(prop[len(base):], "")
    json.dump({"property": base, "origin": "independent sub-agent (saw only the property text and a scratch worktree)" + rnd,
               "needs": notes[:1200], "confirmed": {"demo_unpatched_rc": base_demo, "demo_patched_rc": mut_demo, "suite": summary[-1]},
               "ran": f"tools/seed_import.py {prop} {m}; tools/seedfast.sh {prop}-{m} {base}"}, open(os.path.join(dst, "meta.json"), "w"), indent=1)
