#!/usr/bin/env python3
"""Regenerates /verif/MANIFEST.json from the table below (keeps it schema-valid at all times)."""
import json, os
ROOT = os.path.dirname(os.path.dirname(os.path.abspath(__file__)))

CLAIMED = {
    # id: (technique, level text, level note, design ref)
    "C01": ("CrossHair/z3 symbolic execution of the real UDP serializer/deserializer on harnesses generated from the live "
            "message template (one per template): symbolic integer fields over full wire ranges, symbolic payload bytes, block "
            "counts, packet id, acks, extra, flags; field-by-field round trip + template-derived datagram length oracle",
            "Bounded symbolic model checking per template: all values of the symbolic fields within the stated bounds are "
            "covered by path-exhaustive exploration (z3 per path); floats/UUIDs/IPs from catalogues.",
            "Trusted: CrossHair + z3 + struct.Struct patch; zero-coding replaced by identity except in zerocoded_real "
            "(justified by C03); JankStringyBytes replaced by bytes except in jank_bytes_catalogue; maybe_reload_templates stubbed.",
            "DESIGN.md A.3 and Part B §1 C01"),
    "C02": ("CrossHair/z3 symbolic execution of the real header parser / lazy+eager body parser / serializer on symbolic "
            "datagram bytes (id, extra, body, ack tail symbolic; flags catalogue; message number pinned) with a symbolic "
            "inspection order and an independent wire-walker oracle for exact consumption",
            "Bounded symbolic model checking over datagram bytes within the stated lengths; quick tier covers the two small "
            "templates, thorough adds the text/Multiple/optional-block templates and real zero-coding.",
            "Trusted: CrossHair + z3; JankStringyBytes replaced by bytes; count/length bytes restricted to {0..3,255}.",
            "DESIGN.md A.3 and Part B §1 C02"),
    "C03": ("CrossHair/z3 path-exhaustive symbolic execution of the real encoder/decoder loop bodies: one-step "
            "inductive lemmas from an arbitrary loop state (all lengths) + bounded whole-function equivalence",
            "Bounded symbolic model checking: every (state, byte) step of the real loops is decided by z3 for all values; "
            "induction over the length lifts it to all inputs; whole-function checks cover all strings up to a stated length.",
            "Trusted: CrossHair 0.0.110 + z3, the AST loop-state rewrite (vlib.loopstate), the written induction argument.",
            "DESIGN.md A.3 and Part B §1 C03"),
    "C04": ("CrossHair/z3 symbolic execution of the real InjectionTracker methods from a symbolic pre-state "
            "(window of <=4/6 symbolic ids, symbolic base counters, unbounded ints) under a proved representation invariant",
            "Bounded symbolic model checking with inductive pre-state: each obligation is decided on all paths for all integer "
            "values; RI preservation makes the pre-state stand for every history with a window of at most the stated size.",
            "Trusted: CrossHair + z3; the representation invariant is checked to be inductive by two of the obligations; "
            "logging statements are compiled out (vlib.nolog).",
            "DESIGN.md A.3 and Part B §1 C04"),
    "C05": ("CrossHair/z3-driven exhaustive exploration of all event histories up to depth 3/4 (forward, inject, drop, "
            "PacketAck, timer; direction and acknowledged id symbolic) through the real handle_proxied_packet / ProxiedCircuit / "
            "InjectionTracker, checked step by step against an abstract reference model of ids and acknowledgements",
            "Bounded model checking of histories: every event sequence within the depth bound is explored (solver-enumerated "
            "selectors) and compared with the reference model after each step.",
            "Trusted: CrossHair + z3; snapshot serializer; deserializer stub; harness clock; endpoints number packets 1,2,3...",
            "DESIGN.md A.3 and Part B §1 C05"),
    "C06": ("CrossHair/z3 symbolic execution of the real SOCKS5 UDP framing (symbolic port/payload/header bytes) and of the real "
            "UDP association -> LLUDP proxy packet path over all 2-datagram schedules (symbolic source and kind) with the "
            "real byte codec, plus a run-twice non-interference oracle on session/circuit state",
            "Bounded symbolic model checking: framing for all ports/payloads within bounds; routing for every schedule of the "
            "stated length over 4 sources x 6 datagram kinds.",
            "Trusted: CrossHair + z3; message content concrete (C01 covers the codec); exceptions escaping datagram_received "
            "count as discard when nothing was sent and state is unchanged.",
            "DESIGN.md A.3 and Part B §1 C06"),
    "C07": ("CrossHair/z3 symbolic execution of the real handle_proxied_packet / AddonManager hook dispatch / ProxiedCircuit "
            "ownership guards with a symbolic fault schedule (behaviour per addon hook and subscriber, direction, reliable bit) "
            "and all operation sequences up to length 4, compared with a reference ownership model; the real Event.notify over a solver-selected behaviour per subscriber (9 behaviours x <=3 subscribers + observer, two notifications)",
            "Bounded symbolic model checking of the fault schedule: every assignment of the 11 behaviours to 2 (quick) / 3 "
            "(thorough) addons x subscriber variants is explored path-exhaustively.",
            "Trusted: CrossHair + z3; snapshot serializer instead of the byte codec; deserializer stub; addon hot-reload stub.",
            "DESIGN.md A.3 and Part B §1 C07"),
    "C08": ("CrossHair/z3 symbolic execution of the real combinator serialize/deserialize/calc_size on spec trees composed "
            "from a leaf alphabet (one obligation per tree shape), with symbolic values, byte order, pod mode and trailing bytes",
            "Bounded symbolic model checking: for each composed spec every value of its domain within the stated size bounds "
            "is covered by exhaustive path exploration with z3 deciding each path; counterexamples are replayed concretely.",
            "Trusted: CrossHair + z3 + vlib.chplugin (struct.Struct patch, lazy text formatting); float/UUID leaves use "
            "catalogue constants; lazy_object_proxy replaced by a pure-Python stand-in; 64-bit ints: catalogue base + symbolic byte.",
            "DESIGN.md A.3 and Part B §1 C08"),
    "C10": ("AST->SMT translation (vlib.pysym) of the live quantisation methods into QF_BVFP with the raw wire value as a "
            "bit-vector; z3 / cvc5 decide each obligation for all 2^8 / 2^16 raw values at once; translator validated against "
            "the real methods on concrete points every run; sat models replayed on the real methods",
            "SMT-decided for every raw value of every discovered instance (round trip, adjacent monotonicity, exact ends, "
            "zero), i.e. exhaustive over the wire domain by solver, not by enumeration.",
            "Trusted: pysym translator (validated per run), z3/cvc5 FP theories, element-wise numpy models listed per obligation; "
            "QuantizedTime only for a sweep of concrete durations.",
            "DESIGN.md A.3 and Part B §1 C10"),
    "C09": ("CrossHair/z3 symbolic execution of every registered subfield serializer taken from the live registry: enum "
            "serializers over the FULL wire range of their variable, flag serializers on a solver-selected boundary/single-bit "
            "catalogue, adapters (object state x PCode, xfer packet id, dates x time zones), byte-payload serializers on ANY "
            "payload <= 2 bytes and on single-byte substitutions of accepted base payloads (fixed-point obligation), the date "
            "adapter's integer arithmetic with the C datetime type stubbed by its contract, block cache invalidation and isolation, texture-entry face bitfields (face sets of 1-3 faces over 0..72) against an independent base-128 model",
            "Bounded symbolic model checking, one obligation per (serializer class, wire type); object and plain-data form; "
            "plain-data repr evaluated back as a literal.",
            "Trusted: CrossHair + z3; lazy_object_proxy replaced by a Python proxy; values that reach bit operators, float "
            "unpacking or C datetime are realized, so those domains are catalogues chosen by the solver.",
            "DESIGN.md A.3 and Part B §1 C09"),
    "C12": ("CrossHair/z3 symbolic execution of the real LLSD message serializer (harnesses generated per template, symbolic "
            "U32/U64/S64 values and block counts), of the real binary LLSD formatter/parsers on trees built from symbolic "
            "choices with symbolic S32 leaves, and of the notation formatter on strings from a hostile alphabet",
            "Bounded symbolic model checking per template and per tree shape; the XML form is exercised with solver-chosen "
            "selectors only (C parser).",
            "Trusted: CrossHair + z3; third-party llsd constructors run untraced (engine workaround); values other than "
            "the packed integer types come from catalogues.",
            "DESIGN.md A.3 and Part B §1 C12"),
    "C13": ("CrossHair/z3 symbolic execution of BOTH real decoders (struct-based fast reader and declarative template) on "
            "payloads produced by the template's own serializer from a value with symbolic section flags / ids / State / "
            "path parameters, compared field by field; template re-encoding compared with the payload",
            "Bounded symbolic differential checking of two implementations of one format; quick tier covers 7 section "
            "patterns x 2 object kinds, thorough all 2^11 patterns x 4 kinds (may be inconclusive within its budget).",
            "Trusted: CrossHair + z3 + struct patch (incl. the repeat-count fix); floats/UUIDs/TE/ExtraParams from the "
            "repo's sample payload; State byte from a 6-value catalogue.",
            "DESIGN.md A.3 and Part B §1 C13"),
    "C14": ("CrossHair/z3 path-exhaustive exploration of ALL bounded message histories (every event parameter a solver-chosen "
            "integer; first event up to renaming) driven through the real session message handler into the real world / region "
            "object managers, compared after every event with an independent scene-graph reference model (indices, parent / "
            "children links in both directions, orphanage, pending requests)",
            "Bounded model checking of the object tracker: every history within the bound is covered; the handlers run on "
            "concrete values once the solver has fixed a history.",
            "Trusted: CrossHair + z3 (path enumeration over the selectors), the reference model in harness/c14.py; message "
            "content is a concrete catalogue; event loop pumped between events.",
            "DESIGN.md A.3 and Part B §1 C14"),
    "C15": ("CrossHair/z3-driven exhaustive exploration of fault schedules (event type x capability kind x raise point x addon "
            "behaviour) through the real pump_proxy_event / HippoHTTPFlow take/resume / CapData (de)hydration, counting "
            "hand-backs and comparing the handed-back state",
            "Fault enumeration decided path-exhaustively: all 560 schedules are executed on the real code.",
            "Trusted: CrossHair + z3; in-process queues instead of multiprocessing queues; URLs/bodies concrete.",
            "DESIGN.md A.3 and Part B §1 C15"),
    "C16": ("CrossHair/z3-driven exhaustive exploration of cap registration histories (seed grants, temporary, proxy-only, "
            "wrapper; two regions; prefix-related URLs) through the real ProxiedRegion/Session/SessionManager and of all "
            "request/grant subsets through the real Seed request/response rewriting, against a reference model",
            "Bounded model checking of histories (depth 2 quick / 3 thorough) with solver-enumerated selectors; every "
            "combination within the bounds is executed on the real code and compared with the model.",
            "Trusted: CrossHair + z3; cap names/URLs are catalogue constants; llsd formatter constructor run untraced.",
            "DESIGN.md A.3 and Part B §1 C16"),
    "C17": ("CrossHair/z3-driven exhaustive exploration of event-queue poll histories (ack ids incl. stale re-polls, upstream "
            "status, event counts, swallowed subsets, injections, region announcements) through the real request/response "
            "handlers and EventQueueManager, against a sequence model of what the viewer must receive; teardown histories through the real ProxiedRegion.mark_dead",
            "Bounded model checking of poll histories (2 polls quick / 3 thorough) with solver-enumerated selectors.",
            "Trusted: CrossHair + z3; LLSD-XML bodies and mitmproxy flow objects are concrete per path.",
            "DESIGN.md A.3 and Part B §1 C17"),
    "C18": ("CrossHair/z3 symbolic execution of the real filter nodes / PEG-compiled filters with symbolic leaf truth values, "
            "of the real _val_matches and LLUDPMessageLogEntry.matches over an operator x type matrix with symbolic values (3-part wildcard and 4-part glob sub-field selectors), "
            "and of all bounded operation sequences on the real FilteringMessageLogger against a reference model",
            "Bounded symbolic model checking: filter programs (trees of depth <=3, chains) x all truth assignments; "
            "comparison matrix with symbolic ints/bytes; logger histories of the stated depth.",
            "Trusted: CrossHair + z3; strings in the ordering matrix come from a catalogue; log entries are minimal stubs "
            "for the view obligations.",
            "DESIGN.md A.3 and Part B §1 C18"),
    "C19": ("CrossHair/z3 symbolic execution of the real HippoClientProtocol.datagram_received and Circuit methods from a "
            "symbolic circuit pre-state (ids already seen, next id, retry budget) over <=3 symbolic arrivals / ack forms / "
            "timer rounds (incl. acknowledgements appended to a suppressed retransmission), compared with a reference model of the dedupe window and the resend timer; the real Event.notify over a solver-selected behaviour per subscriber",
            "Bounded symbolic model checking: all arrival sequences up to the stated depth with symbolic packet ids and flag "
            "bits are covered path-exhaustively.",
            "Trusted: CrossHair + z3; serializer replaced by a snapshot recorder (byte codec is C01), deserializer by a stub that "
            "hands over the prepared Message, circuit clock by a harness clock.",
            "DESIGN.md A.3 and Part B §1 C19"),
    "C20": ("CrossHair/z3 symbolic execution of the real chunker / chunk handlers (Xfer, XferManager, TransferManager) with a symbolic "
            "payload and a symbolic arrival schedule; path-exhaustive exploration of solver-chosen field combinations of inventory "
            "items / categories / objects through legacy text, legacy LLSD and AIS LLSD (symbolic U32/S32 values through the LLSD "
            "forms); animations of both format versions with symbolic S32 fields and solver-chosen structure",
            "Bounded symbolic model checking of the transfer state machines (all payloads <= 8 bytes x all schedules of 5 "
            "deliveries); bounded exhaustive exploration of catalogue products for the text codecs, whose values are realized at "
            "C boundaries (StringIO, expat).",
            "Trusted: CrossHair + z3; chunk size constant reduced to 4 in one obligation (the production value in another); "
            "third-party llsd constructors run untraced.",
            "DESIGN.md A.3 and Part B §1 C20"),
}

NOT_APPLICABLE = {
    "C11": "human-readable formatter/parser is repr/pprint/regex/ast.literal_eval on strings: every value is realized at "
           "those C/regex boundaries, so a solver decides nothing there (probed: Not confirmed after 90 s on a 2-char message)",
}

PENDING_REASON = "no solver-based check registered yet (work in progress; see DESIGN.md §5 build order)"


def main():
    props = [json.loads(l)["id"] for l in open(os.path.join(ROOT, "properties.jsonl"))]
    checks = []
    for pid in props:
        if pid not in CLAIMED:
            continue
        tech, text, note, ref = CLAIMED[pid]
        checks.append({
            "property_id": pid,
            "quick_cmd": f"./check {pid} --tier quick",
            "thorough_cmd": f"./check {pid} --tier thorough",
            "evidence_file": f"/verif/evidence/{pid}.json",
            "replay_cmd_template": "./check --replay {path}",
            "engine": "crosshair-z3-smt",
            "level_claimed": {"category": "model_checking", "text": text, "design_ref": ref},
            "level_note": note,
            "technique": tech,
        })
    na = []
    for pid in props:
        if pid in CLAIMED:
            continue
        na.append({"property_id": pid, "reason": NOT_APPLICABLE.get(pid, PENDING_REASON)})
    man = {
        "version": 1,
        "setup_cmd": "./setup.sh",
        "hooks": {"guard": "HIPPOLYZER_VERIF", "enable": "no source hooks are needed: all stubbing is done from the harness "
                  "side by assignment to module attributes; the variable is reserved and set by ./check",
                  "baseline_off_cmd": "cd /repo && /venv/bin/python -m pytest -q -p no:cacheprovider --timeout=900",
                  "source_commits": [], "add_only": True},
        "engines": [{"name": "crosshair-z3-smt", "path": "/verif/vlib", "serves_properties": sorted(CLAIMED),
                     "kind_free_text": "solver-based checking of the real code: CrossHair symbolic execution (z3) of repo "
                     "functions, AST->SMT (z3/cvc5, QF_BVFP) for float/bit kernels, loop-state one-step induction"}],
        "checks": checks,
        "not_applicable": na,
        "notes": "Exit 0 holds/known-finding/inconclusive(reported), exit 1 VIOLATION (replayed concretely), exit 2 harness/engine error.",
    }
    with open(os.path.join(ROOT, "MANIFEST.json"), "w") as f:
        json.dump(man, f, indent=1)
    try:
        import jsonschema
        jsonschema.validate(man, json.load(open("/root/.vp/MANIFEST.schema.json")))
        print("MANIFEST valid;", len(checks), "checks;", len(na), "not_applicable")
    except ImportError:
        print("written (jsonschema not available to validate)")


if __name__ == "__main__":
    main()
