#!/bin/bash
# tools/seedbatch.sh <PROP> <jobs> <seed-dir>... : run the PROP quick check against each seeded change, applied in the
# scratch worktree /tmp/wt/<PROP> (not /repo), sequentially; results in /tmp/seedres/<seed>.log
P=$1; J=$2; shift 2
mkdir -p /tmp/seedres
for S in "$@"; do
  WT=/tmp/wt/$P
  git -C $WT checkout -q -- . ; git -C $WT apply /verif/seeded/$S/patch.diff || { echo "$S: patch does not apply" > /tmp/seedres/$S.log; continue; }
  mkdir -p /tmp/seedout/$S
  ( cd /verif && VERIF_REPO=$WT VERIF_OUT_DIR=/tmp/seedout/$S VERIF_JOBS=$J nice -n 5 ./check $P --tier quick > /tmp/seedres/$S.log 2>&1; echo "exit=$?" >> /tmp/seedres/$S.log )
  git -C $WT checkout -q -- .
done
