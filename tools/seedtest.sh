#!/bin/bash
# tools/seedtest.sh <seeded-dir> [tier]  — apply seeded/<dir>/patch.diff to /repo, run the check(s) named in meta.json, undo.
set -u
D=/verif/seeded/$1; TIER=${2:-quick}
[ -f "$D/patch.diff" ] || { echo "no $D/patch.diff"; exit 2; }
PROPS=$(python3 -c "import json;m=json.load(open('$D/meta.json'));p=m['property'];print(' '.join(p if isinstance(p,list) else [p]))")
cd /repo && git diff --quiet || { echo "/repo dirty"; exit 2; }
git -C /repo apply "$D/patch.diff" || { echo "patch does not apply"; exit 2; }
trap 'git -C /repo checkout -- . ; git -C /repo clean -fdq -- hippolyzer tests >/dev/null 2>&1' EXIT
rc_all=0
for P in $PROPS; do
  cd /verif && ./check $P --tier $TIER 2>&1 | grep -E "VIOLATION|ERROR|INCONCLUSIVE|tier=" | cut -c1-400
  rc=${PIPESTATUS[0]}
  echo "== seeded $1 property $P tier $TIER -> exit $rc"
  [ $rc -ne 0 ] && rc_all=$rc
done
exit $rc_all
