#!/usr/bin/env python3
"""tools/gen_design.py — assemble DESIGN.md: tools/asbuilt_head.md (tables filled from evidence/, known_findings.json,
seeded/RESULTS.json) + tools/design_partB.md (the design written before the code)."""
import glob
import json
import os

ROOT = os.path.dirname(os.path.dirname(os.path.abspath(__file__)))
props = {}
for line in open(os.path.join(ROOT, "properties.jsonl")):
    d = json.loads(line)
    props[d["id"]] = d
manifest = json.load(open(os.path.join(ROOT, "MANIFEST.json")))
claimed = {c["property_id"] for c in manifest["checks"]}


def esc(s):
    return str(s).replace("|", "\\|").replace("\n", " ")


rows = ["| Property | Obligations (quick) | holds | known finding | inconclusive | symbolic paths + SMT queries | quick wall (s) |",
        "|---|---|---|---|---|---|---|"]
for pid in sorted(props):
    title = props[pid]["title"]
    if pid not in claimed:
        rows.append(f"| {pid} {esc(title)} | not applicable (A.6) | | | | | |")
        continue
    p = os.path.join(ROOT, "evidence", f"{pid}.json")
    if not os.path.exists(p):
        rows.append(f"| {pid} {esc(title)} | (no evidence yet) | | | | | |")
        continue
    ev = json.load(open(p))
    tab = ev["coverage"].get("obligation_table", [])
    cnt = {}
    for o in tab:
        cnt[o.get("verdict")] = cnt.get(o.get("verdict"), 0) + 1
    inc = [o.get("obligation", o.get("name", "?")) for o in tab if o.get("verdict") == "inconclusive"]
    inc_s = str(len(inc)) + (" (" + ", ".join(inc[:4]) + ("…" if len(inc) > 4 else "") + ")" if inc else "")
    rows.append(f"| {pid} {esc(title)} | {len(tab)} | {cnt.get('holds', 0)} | {cnt.get('known', 0)} | {esc(inc_s)} | "
                f"{ev['coverage'].get('evaluations', '')} | {round(ev.get('wall_s', 0))} |")
PROPERTY_TABLE = "\n".join(rows)

trows = ["| Property | Obligations (thorough) | holds | known finding | inconclusive (incl. not started within the budget) | paths + queries | wall (s) |",
         "|---|---|---|---|---|---|---|"]
for pid in sorted(props):
    p = os.path.join(ROOT, "evidence_thorough", f"{pid}.json")
    if not os.path.exists(p):
        continue
    ev = json.load(open(p))
    tab = ev["coverage"].get("obligation_table", [])
    cnt = {}
    for o in tab:
        cnt[o.get("verdict")] = cnt.get(o.get("verdict"), 0) + 1
    trows.append(f"| {pid} | {len(tab)} | {cnt.get('holds', 0)} | {cnt.get('known', 0)} | {cnt.get('inconclusive', 0)} | "
                 f"{ev['coverage'].get('evaluations', '')} | {round(ev.get('wall_s', 0))} |")
THOROUGH_TABLE = "\n".join(trows) if len(trows) > 2 else "(no thorough run recorded)"

kf = json.load(open(os.path.join(ROOT, "known_findings.json")))
FIXED_TABLE = "\n".join("* " + esc(x[len("fixed: "):] if x.startswith("fixed: ") else x) for x in kf["fixed"])
KNOWN_TABLE = "\n".join(f"* **{k['property']}** `{k['obligation']}` — {esc(k['what'])}" for k in kf["findings"])

res_p = os.path.join(ROOT, "seeded", "RESULTS.json")
results = json.load(open(res_p)) if os.path.exists(res_p) else {}
rows = ["| Seeded change | Property | What it needs | Result (quick tier unless stated) |", "|---|---|---|---|"]
for d in sorted(glob.glob(os.path.join(ROOT, "seeded", "*", "meta.json"))):
    sid = os.path.basename(os.path.dirname(d))
    m = json.load(open(d))
    lines = [ln.strip() for ln in str(m.get("needs", "")).splitlines() if ln.strip()]
    needs = (lines[0] if lines else "").lstrip("# ").strip()[:200]
    r = results.get(sid, {})
    res = r.get("result", "not run")
    if r.get("caught_by"):
        res += ": " + ", ".join(r["caught_by"][:3]) + ("…" if len(r["caught_by"]) > 3 else "")
    if r.get("note"):
        res += " — " + r["note"]
    prop = m["property"] if isinstance(m["property"], str) else ",".join(m["property"])
    rows.append(f"| {sid} | {prop} | {esc(needs)} | {esc(res)} |")
SEED_TABLE = "\n".join(rows)

head = open(os.path.join(ROOT, "tools", "asbuilt_head.md")).read()
for k, v in (("@@THOROUGH_TABLE@@", THOROUGH_TABLE), ("@@PROPERTY_TABLE@@", PROPERTY_TABLE), ("@@FIXED_TABLE@@", FIXED_TABLE), ("@@KNOWN_TABLE@@", KNOWN_TABLE),
             ("@@SEED_TABLE@@", SEED_TABLE)):
    head = head.replace(k, v)
partb = open(os.path.join(ROOT, "tools", "design_partB.md")).read()
open(os.path.join(ROOT, "DESIGN.md"), "w").write(head + partb)
print("DESIGN.md written:", len(head) + len(partb), "bytes")
