"""./check <ID> [--tier quick|thorough] [--only NAME] | ./check --replay FILE

Exit 0: every obligation decided "holds" (or is a listed known finding, or inconclusive -> reported).
Exit 1: a replayed, unlisted violation (VIOLATION line printed).
Exit 2: harness/engine error (never a VIOLATION).
"""
import argparse
import concurrent.futures as cf
import hashlib
import importlib
import inspect
import json
import os
import subprocess
import sys
import time
from dataclasses import dataclass, field
from typing import Any, Dict, List, Optional

ROOT = os.path.dirname(os.path.dirname(os.path.abspath(__file__)))
# Development aid (never used by the registered commands): analyse another checkout instead of /repo and keep
# its evidence/replays apart, so seeded changes can be tried in scratch worktrees in parallel.
ALT_REPO = os.environ.get("VERIF_REPO")
OUT = os.environ.get("VERIF_OUT_DIR") or ROOT
if ALT_REPO:
    sys.path.insert(0, ALT_REPO)
PY = os.path.join(ROOT, ".venv", "bin", "python")
WORK = os.path.join(ROOT, ".work")
KNOWN = os.path.join(ROOT, "known_findings.json")


@dataclass
class Ob:
    name: str
    module: str
    func: str
    kind: str = "crosshair"          # or "call"
    timeout: float = 60.0
    note: str = ""
    covers: tuple = ()
    twin: bool = True
    args: Dict[str, Any] = field(default_factory=dict)
    per_path_timeout: Optional[float] = None


def default_obligations(module_name: str, tier: str) -> List[Ob]:
    from vlib import harness as H
    obs = []
    for s in H.specs_of(module_name):
        if tier not in s.tiers:
            continue
        t = s.timeout
        if tier == "thorough" and s.thorough_timeout:
            t = s.thorough_timeout
        obs.append(Ob(name=s.name, module=module_name, func=s.name, timeout=t, note=s.note,
                      covers=tuple(s.covers), twin=s.twin, per_path_timeout=s.per_path_timeout))
    return obs


def _env():
    e = dict(os.environ)
    e["PYTHONPATH"] = (ALT_REPO + os.pathsep if ALT_REPO else "") + ROOT
    e["PYTHONDONTWRITEBYTECODE"] = "1"
    e["PYTHONHASHSEED"] = "0"
    e.setdefault("HIPPOLYZER_VERIF", "1")
    e["PYTHONWARNINGS"] = "ignore"
    return e


def _run_json(cmd, wall_timeout):
    t0 = time.time()
    try:
        p = subprocess.run(cmd, capture_output=True, text=True, timeout=wall_timeout, env=_env(), cwd=ROOT)
    except subprocess.TimeoutExpired:
        return {"status": "unknown", "error": f"wall timeout {wall_timeout}s", "wall_s": time.time() - t0,
                "paths": 0}
    out = p.stdout.strip().splitlines()
    for line in reversed(out):
        line = line.strip()
        if line.startswith("{"):
            try:
                return json.loads(line)
            except ValueError:
                continue
    return {"status": "error", "error": f"no JSON from {' '.join(cmd)} rc={p.returncode}\n"
            f"{p.stdout[-1500:]}\n{p.stderr[-2500:]}", "wall_s": time.time() - t0, "paths": 0}


def run_driver(ob: Ob, twin=False, extra_pre=()):
    cmd = [PY, "-m", "vlib.chdriver", ob.module, ob.func, "--timeout", str(ob.timeout if not twin else min(ob.timeout, 60))]
    if ob.per_path_timeout:
        cmd += ["--per-path-timeout", str(ob.per_path_timeout)]
    if twin:
        cmd.append("--twin")
    for p in extra_pre:
        cmd += ["--extra-pre", p]
    return _run_json(cmd, wall_timeout=ob.timeout * 1.6 + 90)


def run_replay(rec: dict, path: str):
    with open(path, "w") as f:
        json.dump(rec, f, indent=1)
    return _run_json([PY, "-m", "vlib.replay", path], wall_timeout=300)


def load_known(prop: str):
    try:
        data = json.load(open(KNOWN))
    except FileNotFoundError:
        return []
    return [k for k in data.get("findings", []) if k["property"] == prop]


def source_hash(covers):
    """Hash of the repo sources of the functions an obligation encodes (regenerated every run)."""
    h = hashlib.sha256()
    names = []
    for q in covers:
        try:
            modname, _, attr = q.rpartition(":")
            if not modname:
                continue
            obj = importlib.import_module(modname)
            for part in attr.split("."):
                obj = getattr(obj, part)
            src = inspect.getsource(obj)
            h.update(src.encode())
            names.append(q)
        except Exception:  # noqa
            names.append(q + " (unresolved)")
    return h.hexdigest()[:16], names


def _ob_match(pattern: str, ob: Ob) -> bool:
    import fnmatch
    return fnmatch.fnmatch(ob.name, pattern) or pattern == f"{ob.module}:{ob.func}"


def decide_crosshair(prop: str, ob: Ob, known: List[dict], replay_counter: List[int]):
    """Run one CrossHair obligation to a verdict, handling replay and known findings."""
    res = {"name": ob.name, "kind": "crosshair", "note": ob.note, "covers": list(ob.covers),
           "timeout_s": ob.timeout, "runs": [], "known_findings": []}
    extra_pre: List[str] = []
    applicable = [k for k in known if _ob_match(k.get("obligation", "*"), ob)]
    matched_once = set()
    for attempt in range(len(applicable) + 2):
        r = run_driver(ob, extra_pre=extra_pre)
        res["runs"].append({k: r.get(k) for k in ("status", "paths", "cpu_s", "wall_s", "extra_pre", "counterexample")}
                           | {"message": (r.get("messages") or [{}])[-1].get("message", "")[:400]})
        st = r.get("status")
        if st == "confirmed":
            res["verdict"] = "known" if matched_once else "holds"
            return res
        if st in ("unknown", "pre_unsat"):
            res["verdict"] = "inconclusive"
            res["detail"] = (f"CrossHair: {st} after {r.get('paths')} paths / {r.get('cpu_s')}s cpu: "
                             f"{r.get('error', '')}{(r.get('messages') or [{}])[-1].get('message', '')}")
            if matched_once:
                res["detail"] += " (after excluding known-finding classes)"
            return res
        if st == "error":
            res["verdict"] = "error"
            res["detail"] = r.get("error", "")[-3000:]
            return res
        # refuted: replay concretely before believing it
        cex = r.get("counterexample")
        msg = (r.get("messages") or [{}])[-1]
        if not cex:
            res["verdict"] = "error"
            res["detail"] = f"refuted without a captured counterexample: {msg}"
            return res
        replay_counter[0] += 1
        path = os.path.join(OUT, "replays", f"{prop}-{ob.name}-{replay_counter[0]}.json")
        rec = {"property": prop, "kind": "crosshair", "module": ob.module, "func": ob.func, "kwargs": cex,
               "extra_pre": list(extra_pre), "crosshair_message": msg.get("message", "")[:1000],
               "traceback": msg.get("traceback", "")[-1500:]}
        rp = run_replay(rec, path)
        if not rp.get("reproduced"):
            res["verdict"] = "error"
            res["detail"] = (f"counterexample {cex} did not reproduce concretely ({rp.get('status')}: "
                             f"{str(rp.get('detail'))[-600:]}) — encoding/engine problem, not a violation")
            return res
        kwargs = eval(cex, {})
        hit = None
        for k in applicable:
            try:
                if eval(k["predicate"], {}, dict(kwargs)):
                    hit = k
                    break
            except Exception:  # noqa
                continue
        if hit is None:
            res["verdict"] = "violation"
            res["counterexample"] = cex
            res["replay"] = path
            res["detail"] = f"{msg.get('message', '')[:600]} | replay: {str(rp.get('detail'))[-800:]}"
            return res
        os.remove(path)
        matched_once.add(hit["predicate"])
        res["known_findings"].append({"predicate": hit["predicate"], "what": hit["what"], "witness": cex})
        extra_pre.append(f"not ({hit['predicate']})")
    res["verdict"] = "error"
    res["detail"] = "known-finding exclusion loop did not converge"
    return res


def decide_call(prop: str, ob: Ob, known: List[dict], replay_counter: List[int]):
    """Engine B/C style obligation: a function that builds SMT queries from the live repo code,
    discharges them, replays models, and returns a JSON verdict itself."""
    applicable = [k for k in known if _ob_match(k.get("obligation", "*"), ob)]
    args = dict(ob.args)
    args["exclude"] = [k["predicate"] for k in applicable]
    cmd = [PY, "-m", "vlib.callrun", ob.module, ob.func, json.dumps(args)]
    r = _run_json(cmd, wall_timeout=ob.timeout * 1.2 + 60)
    res = {"name": ob.name, "kind": "call", "note": ob.note, "covers": list(ob.covers), "timeout_s": ob.timeout,
           "runs": [{k: r.get(k) for k in ("status", "queries", "solver_s", "wall_s", "detail") if k in r}],
           "known_findings": []}
    for k in ("queries", "solver_s", "encoded", "bounds", "samples", "validated_points"):
        if k in r:
            res[k] = r[k]
    st = r.get("status")
    for kf in r.get("known_hits", []):
        hit = next((k for k in applicable if k["predicate"] == kf["predicate"]), None)
        res["known_findings"].append({"predicate": kf["predicate"], "what": hit["what"] if hit else "",
                                      "witness": kf.get("witness")})
    if st == "proved":
        res["verdict"] = "known" if res["known_findings"] else "holds"
    elif st == "refuted":
        replay_counter[0] += 1
        path = os.path.join(OUT, "replays", f"{prop}-{ob.name}-{replay_counter[0]}.json")
        rec = {"property": prop, "kind": "call", "module": ob.module, "replay_func": r.get("replay_func", "replay"),
               "counterexample": r.get("counterexample"), "detail": r.get("detail", "")}
        rp = run_replay(rec, path)
        if rp.get("reproduced"):
            res["verdict"] = "violation"
            res["counterexample"] = r.get("counterexample")
            res["replay"] = path
            res["detail"] = f"{r.get('detail', '')} | replay: {str(rp.get('detail'))[-600:]}"
        else:
            res["verdict"] = "error"
            res["detail"] = f"model {r.get('counterexample')} did not reproduce on the real code: {rp}"
    elif st in ("unknown", "inconclusive"):
        res["verdict"] = "inconclusive"
        res["detail"] = r.get("detail", "") or r.get("error", "")
    else:
        res["verdict"] = "error"
        res["detail"] = (r.get("error") or r.get("detail") or "")[-3000:]
    return res


def run_twin(ob: Ob):
    r = run_driver(ob, twin=True)
    st = r.get("status")
    if st == "refuted":
        return {"reachable": True, "witness": r.get("counterexample"), "wall_s": r.get("wall_s")}
    if st in ("confirmed", "pre_unsat"):
        return {"reachable": False, "status": st, "detail": str(r.get("messages"))[:500]}
    return {"reachable": None, "status": st, "detail": (r.get("error") or "")[-500:]}


def check_property(prop: str, tier: str, only: Optional[str], jobs: int):
    t0 = time.time()
    seed = int(os.environ.get("VERIF_SEED", "0") or 0)
    os.makedirs(WORK, exist_ok=True)
    os.makedirs(os.path.join(OUT, "replays"), exist_ok=True)
    os.makedirs(os.path.join(OUT, "evidence"), exist_ok=True)
    modname = f"harness.{prop.lower()}"
    # obligations are listed in a subprocess-free way: importing the harness imports /repo afresh
    mod = importlib.import_module(modname)
    if hasattr(mod, "obligations"):
        obs = mod.obligations(tier, seed)
    else:
        obs = default_obligations(modname, tier)
    if only:
        import fnmatch
        pats = only.split(",")
        obs = [o for o in obs if any(fnmatch.fnmatchcase(o.name, p) for p in pats)]
    known = load_known(prop)
    for f in os.listdir(os.path.join(OUT, "replays")):
        if f.startswith(prop + "-"):
            os.remove(os.path.join(OUT, "replays", f))
    counter = [0]
    results = {}
    twins = {}
    # wall budget: obligations that have not STARTED when it is used up are reported as inconclusive ("not started"), never
    # as holding.  The quick tier has no budget by default (everything runs); the thorough tier defaults to 90 minutes.
    budget = float(os.environ.get("VERIF_BUDGET_S", "0") or 0) or (5400.0 if tier == "thorough" else 0.0)

    def guarded_main(fn, ob):
        if budget and time.time() - t0 > budget:
            return {"name": ob.name, "kind": ob.kind, "note": ob.note, "covers": list(ob.covers), "timeout_s": ob.timeout,
                    "runs": [], "known_findings": [], "verdict": "inconclusive",
                    "detail": f"not started: the {tier} tier's wall budget of {budget:.0f} s was used up (VERIF_BUDGET_S)"}
        return fn(prop, ob, known, counter)

    def guarded_twin(ob):
        if budget and time.time() - t0 > budget:
            return {"reachable": None, "detail": "not started (wall budget)"}
        return run_twin(ob)

    with cf.ThreadPoolExecutor(max_workers=jobs) as ex:
        futs = {}
        for ob in obs:
            fn = decide_crosshair if ob.kind == "crosshair" else decide_call
            futs[ex.submit(guarded_main, fn, ob)] = ("main", ob)
            if ob.kind == "crosshair" and ob.twin:
                futs[ex.submit(guarded_twin, ob)] = ("twin", ob)
        for fut in cf.as_completed(futs):
            kind, ob = futs[fut]
            try:
                r = fut.result()
            except Exception as e:  # noqa
                r = {"name": ob.name, "verdict": "error", "detail": repr(e)} if kind == "main" else \
                    {"reachable": None, "detail": repr(e)}
            if kind == "main":
                results[ob.name] = r
                print(f"[{prop}] {ob.name}: {r['verdict']}"
                      + (f" — {str(r.get('detail', ''))[:300]}" if r["verdict"] not in ("holds",) else "")
                      + f" ({sum((x.get('paths') or 0) for x in r.get('runs', []))} paths, "
                        f"{sum((x.get('wall_s') or 0) for x in r.get('runs', [])):.1f}s)", flush=True)
            else:
                twins[ob.name] = r
    exit_code = 0
    lines = []
    n_viol = 0
    for ob in obs:
        r = results[ob.name]
        tw = twins.get(ob.name)
        if tw is not None:
            r["twin"] = tw
            if tw.get("reachable") is False and r["verdict"] in ("holds", "known"):
                r["verdict"] = "error"
                r["detail"] = f"reachability twin could not reach the end of the harness (vacuous): {tw}"
        for kf in r.get("known_findings", []):
            lines.append(f"KNOWN-FINDING: property={prop} {kf['what']} [obligation {ob.name}; witness {kf.get('witness')}]")
        if r["verdict"] == "violation":
            n_viol += 1
            lines.append(f"VIOLATION property={prop} replay={r['replay']}")
            lines.append(f"  obligation {ob.name}: {r.get('counterexample')} :: {str(r.get('detail'))[:500]}")
            exit_code = 1
        elif r["verdict"] == "error":
            lines.append(f"ERROR property={prop} obligation={ob.name}: {str(r.get('detail'))[:1500]}")
            if exit_code == 0:
                exit_code = 2
        elif r["verdict"] == "inconclusive":
            lines.append(f"INCONCLUSIVE property={prop} obligation={ob.name}: {str(r.get('detail'))[:300]}")
    write_evidence(prop, tier, seed, mod, obs, results, time.time() - t0, n_viol)
    for ln in lines:
        print(ln)
    decided = sum(1 for r in results.values() if r["verdict"] in ("holds", "known"))
    print(f"[{prop}] tier={tier} obligations={len(obs)} decided-holds={decided} "
          f"inconclusive={sum(1 for r in results.values() if r['verdict'] == 'inconclusive')} "
          f"violations={n_viol} wall={time.time() - t0:.1f}s exit={exit_code}")
    return exit_code


def write_evidence(prop, tier, seed, mod, obs, results, wall, n_viol):
    paths = 0
    solver_s = 0.0
    queries = 0
    encoded = set()
    samples = []
    ob_rows = []
    for ob in obs:
        r = results[ob.name]
        p = sum((x.get("paths") or 0) for x in r.get("runs", []))
        paths += p
        solver_s += sum((x.get("cpu_s") or x.get("solver_s") or 0) for x in r.get("runs", []))
        queries += r.get("queries", 0) or 0
        encoded.update(r.get("covers", []))
        row = {"obligation": ob.name, "engine": "crosshair(z3)" if ob.kind == "crosshair" else "smt",
               "claim": ob.note, "verdict": r["verdict"], "paths": p, "timeout_s": ob.timeout,
               "solver_or_cpu_s": round(sum((x.get("cpu_s") or x.get("solver_s") or 0) for x in r.get("runs", [])), 2)}
        for k in ("queries", "bounds", "encoded", "validated_points"):
            if k in r:
                row[k] = r[k]
        if r.get("twin"):
            row["reachability_twin"] = r["twin"]
        if r["verdict"] not in ("holds",):
            row["detail"] = str(r.get("detail", ""))[:800]
        if r.get("known_findings"):
            row["known_findings"] = r["known_findings"]
        ob_rows.append(row)
        if r.get("twin", {}).get("witness"):
            samples.append({"obligation": ob.name, "reachability_witness": r["twin"]["witness"]})
        for s in (r.get("samples") or [])[:3]:
            samples.append({"obligation": ob.name, "sample": s})
        if r.get("counterexample"):
            samples.append({"obligation": ob.name, "counterexample": r["counterexample"]})
    if not samples:
        samples = [{"obligation": o.name, "claim": o.note} for o in obs[:3]]
    shash, names = source_hash(sorted(encoded))
    decided = sum(1 for r in results.values() if r["verdict"] in ("holds", "known"))
    meta = getattr(mod, "EVIDENCE", {})
    ev = {
        "property_id": prop, "tier": tier, "seed": seed, "level": "model_checking",
        "coverage": {
            "evaluations": max(paths + queries, 1),
            "distinct_nontrivial": paths + queries,
            "rule": "each evaluation is one symbolic execution path of the real repo functions (CrossHair; the path "
                    "condition is decided by z3 and the postcondition is proved on the path) or one SMT query built "
                    "from the live function's AST; paths are distinct by construction (distinct branch decisions), "
                    "and each stands for every concrete input satisfying its path condition",
            "samples": samples[:12],
            "obligations": len(obs), "discharged": decided,
            "obligation_table": ob_rows,
            "symbolic_paths": paths, "smt_queries": queries, "solver_cpu_s": round(solver_s, 2),
            "functions_encoded": names, "source_sha256_16": shash,
            "bounds": meta.get("bounds", ""), "outside_claim": meta.get("outside", ""),
            "explanation": meta.get("explanation", ""),
            "exhaustive": False,
            "checker_cmd": f"./check {prop} --tier {tier}",
            "trusted_base": ["CrossHair 0.0.110 symbolic execution + z3 5.1.0", "vlib.chplugin engine patches",
                             "CPython struct/uuid/float C code on realized values"] + meta.get("trusted", []),
        },
        "assumptions": meta.get("assumptions", []),
        "wall_s": round(wall, 2), "violations": n_viol,
    }
    with open(os.path.join(OUT, "evidence", f"{prop}.json"), "w") as f:
        json.dump(ev, f, indent=1, default=str)


def main(argv=None):
    ap = argparse.ArgumentParser()
    ap.add_argument("prop", nargs="?")
    ap.add_argument("--tier", default=os.environ.get("VERIF_TIER", "quick"))
    ap.add_argument("--only", default=None)
    ap.add_argument("--jobs", type=int, default=int(os.environ.get("VERIF_JOBS", "14")))
    ap.add_argument("--replay", default=None)
    a = ap.parse_args(argv)
    if a.replay:
        p = subprocess.run([PY, "-m", "vlib.replay", a.replay], env=_env(), cwd=ROOT)
        return p.returncode
    if not a.prop:
        ap.error("property id required")
    if a.tier not in ("quick", "thorough"):
        a.tier = "quick"
    try:
        return check_property(a.prop.upper(), a.tier, a.only, a.jobs)
    except Exception as e:  # noqa
        import traceback
        traceback.print_exc()
        print(f"ERROR property={a.prop} {e!r}")
        return 2


if __name__ == "__main__":
    sys.exit(main())
