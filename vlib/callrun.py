"""Runs one 'call' obligation (Engine B/C) in its own process and prints its JSON verdict.

usage: python -m vlib.callrun MODULE FUNC JSONARGS
The function receives **args (incl. 'exclude': list of known-finding predicates) and returns a dict
with status in {proved, refuted, unknown, error} (see vlib.main.decide_call).
"""
import importlib
import json
import sys
import time
import traceback


def main():
    modname, fn, args = sys.argv[1], sys.argv[2], json.loads(sys.argv[3])
    t0 = time.time()
    try:
        mod = importlib.import_module(modname)
        res = getattr(mod, fn)(**args)
    except BaseException as e:  # noqa
        res = {"status": "error", "error": "".join(traceback.format_exception(type(e), e, e.__traceback__))[-4000:]}
    res["wall_s"] = round(time.time() - t0, 2)
    print(json.dumps(res, default=str))


if __name__ == "__main__":
    main()
