"""Engine B: merging symbolic evaluation of a live Python function's AST into z3 terms (QF_BVFP).

`SymExec(fn, self_obj).call(args)` re-parses `inspect.getsource(fn)` (the repo's current source) and
evaluates the body over values that are either concrete Python objects (computed by Python itself, so
exact by construction) or symbolic terms:

  python int   -> signed bit-vector of width IW (default 64); every arithmetic step on ints adds an
                  overflow side condition to `self.side` (must be proved separately: `no_overflow`)
  python float -> z3 Float64, arithmetic with RNE (CPython semantics)
  python bool  -> z3 Bool

`if` on a symbolic condition evaluates both arms and joins the environments with `ite` (state merging);
`return` inside arms is collected as guarded values.  Supported calls: min, max, round, int, float, abs,
math.fabs/copysign/fmod (fmod modelled exactly for |x| <= |y|, the side condition is recorded),
self.<method>() and super().<method>() (inlined from the live class), and a small table of
element-wise numpy models (np.array, np.clip, np.rint, ndarray.astype) -- each listed in `trusted`.
Sub-expressions without symbolic inputs are evaluated by Python itself in the function's globals.
Anything else raises Unsupported (-> obligation inconclusive, never a verdict).
"""
import ast
import inspect
import math
import struct
import textwrap

import z3

IW = 64
RNE = z3.RNE()
RTZ = z3.RTZ()
F64 = z3.Float64()


class Unsupported(Exception):
    pass


class SymInt:
    def __init__(self, bv):
        self.t = bv


class SymFloat:
    def __init__(self, fp):
        self.t = fp


class SymBool:
    def __init__(self, b):
        self.t = b


class SymArr:
    """element-wise stand-in for a numpy array: one symbolic element, dtype tracked"""

    def __init__(self, elem, dtype):
        self.elem = elem      # SymInt / SymFloat / concrete
        self.dtype = dtype


def is_sym(v):
    return isinstance(v, (SymInt, SymFloat, SymBool, SymArr))


def fp_const(x: float):
    return z3.FPVal(x, F64)


def to_fp(v):
    if isinstance(v, SymFloat):
        return v.t
    if isinstance(v, SymInt):
        return z3.fpSignedToFP(RNE, v.t, F64)
    if isinstance(v, bool):
        return fp_const(float(v))
    if isinstance(v, (int, float)):
        return fp_const(float(v))
    raise Unsupported(f"to_fp({type(v)})")


def to_bv(v):
    if isinstance(v, SymInt):
        return v.t
    if isinstance(v, (bool, int)):
        if not -(2 ** (IW - 1)) <= int(v) < 2 ** (IW - 1):
            raise Unsupported("int constant out of modelled width")
        return z3.BitVecVal(int(v), IW)
    raise Unsupported(f"to_bv({type(v)})")


def to_bool(v):
    if isinstance(v, SymBool):
        return v.t
    if isinstance(v, SymInt):
        return v.t != 0
    if isinstance(v, SymFloat):
        return z3.Not(z3.fpIsZero(v.t))
    return z3.BoolVal(bool(v))


class _Return(Exception):
    pass


class SymExec:
    def __init__(self, fn, self_obj=None, owner_cls=None, extra_globals=None):
        self.fn = inspect.unwrap(fn)
        self.self_obj = self_obj
        self.owner_cls = owner_cls
        self.side = []          # side conditions (z3 Bool) that must hold for the model to be exact
        self.trusted = set()
        self.encoded = []       # qualified names of functions whose AST was evaluated
        self.extra_globals = extra_globals or {}

    # ---------------------------------------------------------------- driver
    def call(self, args: dict):
        return self._call_fn(self.fn, self.self_obj, self.owner_cls, args)

    def _call_fn(self, fn, self_obj, owner_cls, args):
        fn = inspect.unwrap(fn)
        if isinstance(fn, (staticmethod, classmethod)):
            fn = fn.__func__
        src = textwrap.dedent(inspect.getsource(fn))
        fdef = ast.parse(src).body[0]
        if not isinstance(fdef, ast.FunctionDef):
            raise Unsupported("not a function")
        self.encoded.append(f"{fn.__module__}:{fn.__qualname__}")
        env = dict(args)
        frame = {"fn": fn, "self": self_obj, "cls": owner_cls, "globals": {**fn.__globals__, **self.extra_globals}}
        rets = []  # list of (guard, value)
        self._block(fdef.body, env, z3.BoolVal(True), rets, frame)
        if not rets:
            return None
        # build nested ite from guarded returns (guards are mutually exclusive by construction)
        val = rets[-1][1]
        for g, v in reversed(rets[:-1]):
            val = self._ite(g, v, val)
        return val

    # ---------------------------------------------------------------- statements
    def _block(self, stmts, env, guard, rets, frame):
        """returns the condition under which control falls off the end of the block"""
        live = guard
        for st in stmts:
            live = self._stmt(st, env, live, rets, frame)
            if z3.is_false(z3.simplify(live)):
                break
        return live

    def _stmt(self, st, env, guard, rets, frame):
        if isinstance(st, ast.Expr):
            if isinstance(st.value, ast.Constant):
                return guard
            self._expr(st.value, env, frame)
            return guard
        if isinstance(st, ast.Assign):
            v = self._expr(st.value, env, frame)
            for tgt in st.targets:
                self._assign(tgt, v, env)
            return guard
        if isinstance(st, ast.AnnAssign):
            if st.value is not None:
                self._assign(st.target, self._expr(st.value, env, frame), env)
            return guard
        if isinstance(st, ast.AugAssign):
            cur = self._expr(ast.Name(id=st.target.id, ctx=ast.Load()), env, frame) \
                if isinstance(st.target, ast.Name) else self._expr(st.target, env, frame)
            v = self._binop(st.op, cur, self._expr(st.value, env, frame))
            self._assign(st.target, v, env)
            return guard
        if isinstance(st, ast.Return):
            v = self._expr(st.value, env, frame) if st.value is not None else None
            rets.append((guard, v))
            return z3.BoolVal(False)
        if isinstance(st, ast.Pass):
            return guard
        if isinstance(st, ast.If):
            c = self._expr(st.test, env, frame)
            if not is_sym(c):
                return self._block(st.body if c else st.orelse, env, guard, rets, frame)
            cb = to_bool(c)
            env_t, env_f = dict(env), dict(env)
            live_t = self._block(st.body, env_t, z3.And(guard, cb), rets, frame)
            live_f = self._block(st.orelse, env_f, z3.And(guard, z3.Not(cb)), rets, frame)
            for k in set(env_t) | set(env_f):
                a, b = env_t.get(k, env.get(k)), env_f.get(k, env.get(k))
                if a is b:
                    env[k] = a
                elif k in env_t and k in env_f:
                    env[k] = self._ite(cb, a, b)
                else:
                    env[k] = a if k in env_t else b
            return z3.simplify(z3.Or(live_t, live_f))
        if isinstance(st, ast.Assert):
            return guard
        raise Unsupported(f"statement {type(st).__name__}")

    def _assign(self, tgt, v, env):
        if isinstance(tgt, ast.Name):
            env[tgt.id] = v
        else:
            raise Unsupported(f"assignment target {ast.dump(tgt)[:80]}")

    # ---------------------------------------------------------------- expressions
    def _ite(self, c, a, b):
        if not is_sym(a) and not is_sym(b) and type(a) is type(b) and (a == b or (a != a and b != b)) \
                and not isinstance(a, float):
            return a
        if isinstance(a, SymArr) or isinstance(b, SymArr):
            raise Unsupported("ite over arrays")
        if isinstance(a, (SymBool, bool)) and isinstance(b, (SymBool, bool)):
            return SymBool(z3.If(c, to_bool(a), to_bool(b)))
        a_int = isinstance(a, SymInt) or (isinstance(a, int) and not isinstance(a, bool))
        b_int = isinstance(b, SymInt) or (isinstance(b, int) and not isinstance(b, bool))
        if a_int and b_int:
            return SymInt(z3.If(c, to_bv(a), to_bv(b)))
        # mixed int/float joins are unified to float (value preserving for |int| < 2**53)
        if a_int or b_int:
            self.trusted.add("int/float join unified to float (exact for |int| < 2**53)")
        return SymFloat(z3.If(c, to_fp(a), to_fp(b)))

    def _has_sym_names(self, node, env):
        for n in ast.walk(node):
            if isinstance(n, ast.Name) and n.id in env and is_sym(env[n.id]):
                return True
        return False

    def _concrete(self, node, env, frame):
        loc = {k: v for k, v in env.items() if not is_sym(v)}
        if frame["self"] is not None:
            loc.setdefault("self", frame["self"])
        g = dict(frame["globals"])
        code = compile(ast.fix_missing_locations(ast.Expression(body=node)), "<pysym-concrete>", "eval")
        return eval(code, g, loc)

    def _expr(self, node, env, frame):
        if not self._has_sym_names(node, env) and not self._mentions_super(node):
            try:
                return self._concrete(node, env, frame)
            except Exception:  # noqa  (e.g. a concrete sub-call handed back a symbolic value: go structural)
                if not isinstance(node, (ast.Call, ast.BinOp, ast.Compare, ast.UnaryOp, ast.IfExp, ast.BoolOp)):
                    raise
        if isinstance(node, ast.Name):
            return env[node.id]
        if isinstance(node, ast.Constant):
            return node.value
        if isinstance(node, ast.BinOp):
            return self._binop(node.op, self._expr(node.left, env, frame), self._expr(node.right, env, frame))
        if isinstance(node, ast.UnaryOp):
            v = self._expr(node.operand, env, frame)
            if isinstance(node.op, ast.USub):
                if isinstance(v, SymFloat):
                    return SymFloat(z3.fpNeg(v.t))
                if isinstance(v, SymInt):
                    self.side.append(v.t != z3.BitVecVal(-(2 ** (IW - 1)), IW))
                    return SymInt(-v.t)
                return -v
            if isinstance(node.op, ast.Not):
                return SymBool(z3.Not(to_bool(v))) if is_sym(v) else (not v)
            raise Unsupported("unary op")
        if isinstance(node, ast.Compare):
            left = self._expr(node.left, env, frame)
            conj = []
            for op, rn in zip(node.ops, node.comparators):
                right = self._expr(rn, env, frame)
                conj.append(self._compare(op, left, right))
                left = right
            if len(conj) == 1:
                return conj[0]
            return SymBool(z3.And(*[to_bool(c) for c in conj]))
        if isinstance(node, ast.BoolOp):
            vals = [self._expr(v, env, frame) for v in node.values]
            if all(isinstance(v, (SymBool, bool)) for v in vals):
                f = z3.And if isinstance(node.op, ast.And) else z3.Or
                return SymBool(f(*[to_bool(v) for v in vals]))
            raise Unsupported("and/or over non-bool values")
        if isinstance(node, ast.IfExp):
            c = self._expr(node.test, env, frame)
            if not is_sym(c):
                return self._expr(node.body if c else node.orelse, env, frame)
            return self._ite(to_bool(c), self._expr(node.body, env, frame), self._expr(node.orelse, env, frame))
        if isinstance(node, ast.Call):
            return self._call(node, env, frame)
        if isinstance(node, ast.Attribute):
            base = self._expr(node.value, env, frame)
            if isinstance(base, SymArr) and node.attr == "shape":
                return (1,)
            raise Unsupported(f"attribute {node.attr} of symbolic value")
        raise Unsupported(f"expression {type(node).__name__}")

    @staticmethod
    def _mentions_super(node):
        return any(isinstance(n, ast.Name) and n.id == "super" for n in ast.walk(node))

    # ---------------------------------------------------------------- arithmetic
    def _is_floaty(self, v):
        return isinstance(v, (SymFloat, float))

    def _binop(self, op, a, b):
        if isinstance(a, SymArr) or isinstance(b, SymArr):
            arr = a if isinstance(a, SymArr) else b
            ea = a.elem if isinstance(a, SymArr) else a
            eb = b.elem if isinstance(b, SymArr) else b
            if isinstance(eb, (int,)) and not isinstance(eb, bool) and arr.dtype == "float64":
                eb = float(eb)
            return SymArr(self._binop(op, ea, eb), arr.dtype)
        if not is_sym(a) and not is_sym(b):
            return self._py_binop(op, a, b)
        if isinstance(op, ast.Div) or self._is_floaty(a) or self._is_floaty(b):
            x, y = to_fp(a), to_fp(b)
            for v in (a, b):
                if isinstance(v, SymInt):
                    self.side.append(z3.And(v.t > -(2 ** 53), v.t < 2 ** 53))
            if isinstance(op, ast.Add):
                return SymFloat(z3.fpAdd(RNE, x, y))
            if isinstance(op, ast.Sub):
                return SymFloat(z3.fpSub(RNE, x, y))
            if isinstance(op, ast.Mult):
                return SymFloat(z3.fpMul(RNE, x, y))
            if isinstance(op, ast.Div):
                self.side.append(z3.Not(z3.fpIsZero(y)))   # ZeroDivisionError otherwise
                return SymFloat(z3.fpDiv(RNE, x, y))
            raise Unsupported(f"float op {type(op).__name__}")
        x, y = to_bv(a), to_bv(b)
        if isinstance(op, ast.Add):
            self.side.append(z3.BVAddNoOverflow(x, y, True))
            self.side.append(z3.BVAddNoUnderflow(x, y))
            return SymInt(x + y)
        if isinstance(op, ast.Sub):
            self.side.append(z3.BVSubNoOverflow(x, y))
            self.side.append(z3.BVSubNoUnderflow(x, y, True))
            return SymInt(x - y)
        if isinstance(op, ast.Mult):
            self.side.append(z3.BVMulNoOverflow(x, y, True))
            self.side.append(z3.BVMulNoUnderflow(x, y))
            return SymInt(x * y)
        raise Unsupported(f"int op {type(op).__name__}")

    @staticmethod
    def _py_binop(op, a, b):
        import operator
        table = {ast.Add: operator.add, ast.Sub: operator.sub, ast.Mult: operator.mul, ast.Div: operator.truediv,
                 ast.FloorDiv: operator.floordiv, ast.Mod: operator.mod, ast.LShift: operator.lshift,
                 ast.RShift: operator.rshift, ast.Pow: operator.pow, ast.BitAnd: operator.and_,
                 ast.BitOr: operator.or_, ast.BitXor: operator.xor}
        return table[type(op)](a, b)

    def _compare(self, op, a, b):
        if not is_sym(a) and not is_sym(b):
            import operator
            table = {ast.Lt: operator.lt, ast.LtE: operator.le, ast.Gt: operator.gt, ast.GtE: operator.ge,
                     ast.Eq: operator.eq, ast.NotEq: operator.ne}
            return table[type(op)](a, b)
        if self._is_floaty(a) or self._is_floaty(b):
            x, y = to_fp(a), to_fp(b)
            f = {ast.Lt: z3.fpLT, ast.LtE: z3.fpLEQ, ast.Gt: z3.fpGT, ast.GtE: z3.fpGEQ, ast.Eq: z3.fpEQ}.get(type(op))
            if f is not None:
                return SymBool(f(x, y))
            if isinstance(op, ast.NotEq):
                return SymBool(z3.Not(z3.fpEQ(x, y)))
            raise Unsupported("float compare")
        x, y = to_bv(a), to_bv(b)
        t = {ast.Lt: x < y, ast.LtE: x <= y, ast.Gt: x > y, ast.GtE: x >= y, ast.Eq: x == y, ast.NotEq: x != y}
        return SymBool(t[type(op)])

    # ---------------------------------------------------------------- calls
    def _call(self, node, env, frame):
        f = node.func
        args = [self._expr(a, env, frame) for a in node.args]
        kwargs = {k.arg: self._expr(k.value, env, frame) for k in node.keywords}
        # super().method(...) / self.method(...)
        if isinstance(f, ast.Attribute) and isinstance(f.value, ast.Call) and isinstance(f.value.func, ast.Name) \
                and f.value.func.id == "super":
            cls = frame["cls"] or type(frame["self"])
            mro = type(frame["self"]).__mro__
            nxt = mro[mro.index(cls) + 1:]
            for c in nxt:
                if f.attr in c.__dict__:
                    return self._inline(c.__dict__[f.attr], frame["self"], c, args, kwargs)
            raise Unsupported(f"super().{f.attr} not found")
        if isinstance(f, ast.Attribute) and isinstance(f.value, ast.Name) and f.value.id == "self" \
                and frame["self"] is not None:
            for c in type(frame["self"]).__mro__:
                if f.attr in c.__dict__:
                    return self._inline(c.__dict__[f.attr], frame["self"], c, args, kwargs)
        # method on symbolic array
        if isinstance(f, ast.Attribute):
            try:
                base = self._expr(f.value, env, frame)
            except Unsupported:
                base = None
            if isinstance(base, SymArr) and f.attr == "astype":
                return self._astype(base, args[0])
        # resolve the callee object concretely
        try:
            callee = self._concrete(f, env, frame)
        except Exception as e:  # noqa
            raise Unsupported(f"cannot resolve callee {ast.dump(f)[:80]}: {e!r}")
        return self._builtin(callee, args, kwargs)

    def _inline(self, fn, self_obj, cls, args, kwargs):
        fn_u = fn.__func__ if isinstance(fn, (staticmethod, classmethod)) else fn
        sig = inspect.signature(fn_u)
        names = list(sig.parameters)
        bound = {}
        pos = list(args)
        if names and names[0] == "self":
            names = names[1:]
        for n, a in zip(names, pos):
            bound[n] = a
        bound.update(kwargs)
        for n in names:
            if n not in bound:
                d = sig.parameters[n].default
                if d is inspect.Parameter.empty:
                    raise Unsupported(f"missing argument {n}")
                bound[n] = d
        return self._call_fn(fn_u, self_obj, cls, bound)

    def _builtin(self, callee, args, kwargs):
        import builtins
        import numpy as np
        if getattr(getattr(callee, "__self__", None), "_pysym_direct", False):
            return callee(*args, **kwargs)      # harness stub that accepts symbolic values
        if callee is builtins.min or callee is builtins.max:
            if len(args) != 2:
                raise Unsupported("min/max arity")
            a, b = args
            # CPython: min(a, b) = b if b < a else a ; max(a, b) = b if b > a else a
            c = self._compare(ast.Lt() if callee is builtins.min else ast.Gt(), b, a)
            return self._ite(to_bool(c), b, a) if is_sym(c) else (b if c else a)
        if callee is builtins.round:
            (x,) = args
            if isinstance(x, SymFloat):
                self.side.append(z3.And(z3.fpGT(x.t, fp_const(-2.0 ** 62)), z3.fpLT(x.t, fp_const(2.0 ** 62))))
                return SymInt(z3.fpToSBV(RNE, x.t, z3.BitVecSort(IW)))
            if isinstance(x, SymInt):
                return x
        if callee is builtins.int:
            (x,) = args
            if isinstance(x, SymFloat):
                self.side.append(z3.And(z3.fpGT(x.t, fp_const(-2.0 ** 62)), z3.fpLT(x.t, fp_const(2.0 ** 62))))
                return SymInt(z3.fpToSBV(RTZ, x.t, z3.BitVecSort(IW)))
            if isinstance(x, SymInt):
                return x
        if callee is builtins.float:
            (x,) = args
            if isinstance(x, SymInt):
                self.side.append(z3.And(x.t > -(2 ** 53), x.t < 2 ** 53))
            return SymFloat(to_fp(x))
        if callee is builtins.abs or callee is math.fabs:
            (x,) = args
            if isinstance(x, SymFloat) or callee is math.fabs:
                return SymFloat(z3.fpAbs(to_fp(x)))
        if callee is math.copysign:
            x, y = args
            mag = z3.fpAbs(to_fp(x))
            return SymFloat(z3.If(z3.fpIsNegative(to_fp(y)), z3.fpNeg(mag), mag))
        if callee is math.fmod:
            x, y = to_fp(args[0]), to_fp(args[1])
            ax, ay = z3.fpAbs(x), z3.fpAbs(y)
            # exact model on |x| <= |y| (y != 0, finite): x if |x| < |y| else copysign(0, x)
            self.side.append(z3.And(z3.fpLEQ(ax, ay), z3.Not(z3.fpIsZero(y)), z3.Not(z3.fpIsNaN(x))))
            self.trusted.add("math.fmod(x, y) modelled exactly on |x| <= |y| (side condition proved separately)")
            zero = z3.If(z3.fpIsNegative(x), z3.fpMinusZero(F64), z3.fpPlusZero(F64))
            return SymFloat(z3.If(z3.fpLT(ax, ay), x, zero))
        # ---- numpy element-wise models (trusted stubs, validated on concrete points against numpy)
        if callee is np.array:
            x = args[0]
            dtype = kwargs.get("dtype", args[1] if len(args) > 1 else None)
            if isinstance(x, SymArr):
                return self._astype(x, dtype) if dtype is not None else x
            return self._astype(SymArr(x, "object"), dtype)
        if callee is np.clip:
            x, lo, hi = args
            self.trusted.add("np.clip(x, lo, hi) == minimum(maximum(x, lo), hi) element-wise (NaN-free inputs)")
            e = to_fp(x.elem)
            lo_t, hi_t = to_fp(lo), to_fp(hi)
            e = z3.If(z3.fpLT(e, lo_t), lo_t, e)
            e = z3.If(z3.fpGT(e, hi_t), hi_t, e)
            return SymArr(SymFloat(e), x.dtype)
        if callee is np.rint:
            (x,) = args
            self.trusted.add("np.rint == IEEE roundToIntegral(RNE) element-wise")
            return SymArr(SymFloat(z3.fpRoundToIntegral(RNE, to_fp(x.elem))), x.dtype)
        raise Unsupported(f"call to {callee!r}")

    def _astype(self, arr, dtype):
        import numpy as np
        dt = np.dtype(dtype)
        if dt == np.float64:
            self.trusted.add("ndarray.astype(float64) of an integer array is exact")
            return SymArr(SymFloat(to_fp(arr.elem)), "float64")
        if dt.kind in "ui":
            e = arr.elem
            if isinstance(e, SymFloat):
                bits = dt.itemsize * 8
                lo = 0.0 if dt.kind == "u" else -(2.0 ** (bits - 1))
                hi = 2.0 ** bits - 1 if dt.kind == "u" else 2.0 ** (bits - 1) - 1
                # C cast float->int is only defined in range; require it
                self.side.append(z3.And(z3.fpGEQ(e.t, fp_const(lo)), z3.fpLEQ(e.t, fp_const(hi))))
                self.trusted.add("ndarray.astype(int dtype) of an in-range integral float is exact truncation")
                return SymArr(SymInt(z3.fpToSBV(RTZ, e.t, z3.BitVecSort(IW))), dt.name)
            return SymArr(e, dt.name)
        raise Unsupported(f"astype({dtype})")


# ------------------------------------------------------------------------------------------------
# helpers for obligations
# ------------------------------------------------------------------------------------------------

def fp_to_py(val) -> float:
    """python float from a z3 FP numeral (bit exact)."""
    bv = z3.simplify(z3.fpToIEEEBV(val))
    if not z3.is_bv_value(bv):
        raise ValueError(f"not a numeral: {val}")
    return struct.unpack("<d", struct.pack("<Q", bv.as_long()))[0]


def eval_term(term, subst: dict):
    """substitute concrete values for the symbolic inputs and simplify to a python value."""
    t = term.t if hasattr(term, "t") else term
    pairs = [(k, v) for k, v in subst.items()]
    r = z3.simplify(z3.substitute(t, *pairs))
    if z3.is_fp(r):
        return fp_to_py(r)
    if z3.is_bv(r):
        return r.as_signed_long()
    if z3.is_bool(r):
        return z3.is_true(r)
    raise ValueError(f"cannot evaluate {r}")


def same_float(a: float, b: float) -> bool:
    return struct.pack("<d", a) == struct.pack("<d", b)
