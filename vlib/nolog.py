"""Environment stub: logging statements get empty bodies (DESIGN.md §0, 'Environment stubs').

Importing this module installs an import hook that compiles every `hippolyzer.*` module from
/repo's *current source* with statements of the form

    <logger>.debug|info|warning|warn|error|exception|critical( ... )        (as a bare statement)

replaced by `pass`, where <logger> is a name ending in LOG/log/logger/logging.  Everything else
is compiled unchanged.  Reason: the arguments of those calls are %-formatted / f-formatted eagerly;
under symbolic execution `"%d" % symbolic_int` realizes the integer and turns one path into an
unbounded family of paths that differ only in a value nobody uses.  Logging is not the subject of
any property.  The hook is active only in symbolic (CrossHair) processes; concrete replay of a
counterexample runs on the unmodified import path.

Must be imported before any `hippolyzer` module (vlib.chdriver does it first thing).
"""
import ast
import importlib.abc
import importlib.machinery
import os
import sys

_LEVELS = {"debug", "info", "warning", "warn", "error", "exception", "critical"}
STRIPPED = {}


def _is_log_call(node: ast.stmt) -> bool:
    if not isinstance(node, ast.Expr) or not isinstance(node.value, ast.Call):
        return False
    f = node.value.func
    if not isinstance(f, ast.Attribute) or f.attr not in _LEVELS:
        return False
    v = f.value
    name = v.id if isinstance(v, ast.Name) else (v.attr if isinstance(v, ast.Attribute) else "")
    low = name.lower()
    return low.endswith("log") or low.endswith("logger") or low == "logging"


class _Strip(ast.NodeTransformer):
    def __init__(self):
        self.count = 0

    def visit_Expr(self, node):
        if _is_log_call(node):
            self.count += 1
            return ast.copy_location(ast.Pass(), node)
        return node


def strip_logging_source(source, filename):
    tree = ast.parse(source, filename=filename)
    tr = _Strip()
    tree = tr.visit(tree)
    ast.fix_missing_locations(tree)
    return tree, tr.count


class _Loader(importlib.machinery.SourceFileLoader):
    def get_code(self, fullname):
        path = self.get_filename(fullname)
        data = self.get_data(path)
        tree, n = strip_logging_source(data, path)
        STRIPPED[fullname] = n
        return compile(tree, path, "exec", dont_inherit=True)


class _Finder(importlib.abc.MetaPathFinder):
    def find_spec(self, fullname, path=None, target=None):
        if not (fullname == "hippolyzer" or fullname.startswith("hippolyzer.")):
            return None
        spec = importlib.machinery.PathFinder.find_spec(fullname, path, target)
        if spec is None or not isinstance(spec.loader, importlib.machinery.SourceFileLoader):
            return spec
        spec.loader = _Loader(spec.loader.name, spec.loader.path)
        return spec


def install():
    if os.environ.get("VERIF_KEEP_LOGGING") == "1":
        return
    if any(isinstance(f, _Finder) for f in sys.meta_path):
        return
    already = [m for m in sys.modules if m == "hippolyzer" or m.startswith("hippolyzer.")]
    if already:
        raise RuntimeError(f"vlib.nolog must be installed before hippolyzer is imported (found {already[:3]})")
    sys.meta_path.insert(0, _Finder())
