"""One CrossHair obligation per process.

usage: python -m vlib.chdriver MODULE FUNC --timeout T [--twin] [--extra-pre EXPR]... [--out FILE]

Builds CrossHair `Conditions` from the harness declaration (vlib.harness), runs the
path-exhaustive analysis and prints one JSON object:
  status: confirmed | refuted | unknown | pre_unsat | error
  paths, exhausted, cpu_s, messages, counterexample (repr of realized kwargs)
"""
import argparse
import collections
import inspect
import json
import sys
import time
import traceback


def plain(v):
    """Turn a realized CrossHair value into a builtin value with a faithful repr."""
    if isinstance(v, bool):
        return bool(v)
    if isinstance(v, int):
        return int(v)
    if isinstance(v, float):
        return float(v)
    if isinstance(v, (bytes, bytearray)):
        return bytes(v)
    if isinstance(v, str):
        return str(v)
    if isinstance(v, tuple):
        return tuple(plain(x) for x in v)
    if isinstance(v, list):
        return [plain(x) for x in v]
    if isinstance(v, (set, frozenset)):
        return {plain(x) for x in v}
    if isinstance(v, dict):
        return {plain(k): plain(x) for k, x in v.items()}
    return v


def main(argv=None):
    ap = argparse.ArgumentParser()
    ap.add_argument("module")
    ap.add_argument("func")
    ap.add_argument("--timeout", type=float, default=60.0)
    ap.add_argument("--per-path-timeout", type=float, default=None)
    ap.add_argument("--twin", action="store_true")
    ap.add_argument("--extra-pre", action="append", default=[])
    ap.add_argument("--out", default=None)
    ap.add_argument("--verbose", action="store_true")
    args = ap.parse_args(argv)

    t0 = time.time()
    result = {"module": args.module, "func": args.func, "twin": args.twin,
              "extra_pre": args.extra_pre, "status": "error", "paths": 0, "exhausted": False,
              "messages": [], "counterexample": None}
    try:
        from vlib import chplugin, nolog
        nolog.install()
        chplugin.install()
        from crosshair.condition_parser import (Conditions, condition_from_source_text,
                                                PRECONDITION, POSTCONDITION, default_counterexample)
        from crosshair.core import ConditionCheckable
        from crosshair.options import DEFAULT_OPTIONS, AnalysisKind
        from crosshair.fnutil import FunctionInfo
        from crosshair.statespace import MessageType
        from crosshair.util import set_debug
        from crosshair.main import prefer_pure_python_imports
        from vlib import harness as H
        if args.verbose:
            set_debug(True)

        with prefer_pure_python_imports():
            spec = H.resolve(args.module, args.func)
        # CrossHair's weakref patch runs a full gc.collect() on every weakref.ref() call (for determinism); the proxy stack
        # built at import makes each one scan the whole import-time heap.  Freezing that heap keeps the collections (and
        # their determinism for everything allocated on a path) but makes them scan only what the paths allocate.
        import gc
        gc.collect()
        gc.freeze()
        fn = spec.fn
        try:
            filename = inspect.getsourcefile(fn) or "<harness>"
            line = inspect.getsourcelines(fn)[1]
        except Exception:  # noqa
            filename, line = "<harness>", 0
        g = getattr(fn, "__verif_ns__", None) or fn.__globals__
        pre = [condition_from_source_text(PRECONDITION, filename, line, p, g)
               for p in list(spec.pre) + list(args.extra_pre)]
        post_src = "False" if args.twin else spec.post
        post = [condition_from_source_text(POSTCONDITION, filename, line, post_src, g)]
        for c in pre + post:
            if c.compile_err is not None:
                raise SyntaxError(f"bad condition {c.expr_source!r}: {c.compile_err}")
        captured = []

        def describe(bargs, return_val, repr_overrides):
            try:
                captured.append({k: plain(v) for k, v in bargs.arguments.items()})
            except Exception:  # noqa
                captured.append(None)
            return default_counterexample(fn.__name__, bargs, return_val, repr_overrides)

        sig = inspect.signature(fn)
        conditions = Conditions(fn, fn, pre, post, frozenset(spec.raises), sig, None, [],
                                counterexample_description_maker=describe)
        stats = collections.Counter()
        ppt = args.per_path_timeout or spec.per_path_timeout
        options = DEFAULT_OPTIONS.overlay(
            analysis_kind=(AnalysisKind.PEP316,),
            per_condition_timeout=args.timeout,
            per_path_timeout=(ppt if ppt else max(10.0, args.timeout ** 0.5)),
            report_all=True, report_verbose=False,
            max_uninteresting_iterations=sys.maxsize,
        )
        options.stats = stats
        checkable = ConditionCheckable(FunctionInfo.from_fn(fn), options, conditions)
        cpu0 = time.process_time()
        messages = list(checkable.analyze())
        result["cpu_s"] = round(time.process_time() - cpu0, 3)
        result["paths"] = stats["num_paths"]
        result["logging_statements_stubbed"] = sum(nolog.STRIPPED.values())
        
        status = "unknown"
        for m in messages:
            result["messages"].append({"state": m.state.name, "message": m.message,
                                       "line": m.line, "traceback": (m.traceback or "")[-1500:]})
            nm = m.state.name
            if nm == "CONFIRMED":
                status = "confirmed"
            elif nm == "CANNOT_CONFIRM":
                status = "unknown"
            elif nm == "PRE_UNSAT":
                status = "pre_unsat"
            elif nm in ("POST_ERR", "EXEC_ERR", "POST_FAIL"):
                status = "refuted"
            else:
                status = "error"
        result["status"] = status
        result["exhausted"] = status == "confirmed"
        if status == "refuted" and captured and captured[-1] is not None:
            result["counterexample"] = repr(captured[-1])
    except BaseException as e:  # noqa  (driver boundary: report everything as engine error)
        result["status"] = "error"
        result["error"] = "".join(traceback.format_exception(type(e), e, e.__traceback__))[-4000:]
    result["wall_s"] = round(time.time() - t0, 3)
    txt = json.dumps(result)
    if args.out:
        with open(args.out, "w") as f:
            f.write(txt)
    else:
        print(txt)
    return 0


if __name__ == "__main__":
    sys.exit(main())
