"""Harness declaration API.

A harness is an ordinary function whose parameters are the symbolic inputs.  The
decorator attaches the bounds/validity predicate (`pre`), the property (`post`, an
expression over the parameters and `_` = return value) and the exceptions the real
code may legitimately raise (`raises`).  The same declaration is used
 * by vlib.chdriver to build CrossHair `Conditions` (symbolic, path-exhaustive), and
 * by vlib.replay to evaluate a counterexample concretely without any tracing.
"""
import importlib
from dataclasses import dataclass, field
from typing import Any, Callable, Dict, List, Optional, Sequence, Tuple


@dataclass
class Spec:
    fn: Callable
    pre: Tuple[str, ...] = ()
    post: str = "True"
    raises: Tuple[type, ...] = ()
    timeout: float = 60.0           # per-condition CPU budget (s) in the quick tier
    thorough_timeout: Optional[float] = None
    tiers: Tuple[str, ...] = ("quick", "thorough")
    twin: bool = True               # run the reachability twin
    note: str = ""                  # what the obligation says, for the evidence file
    covers: Tuple[str, ...] = ()    # repo functions executed (qualified names)
    per_path_timeout: Optional[float] = None
    expect: str = "confirmed"       # or "bughunt": a timeout is tolerated but reported undecided

    @property
    def name(self):
        return self.fn.__name__


def harness(pre: Sequence[str] = (), post: str = "True", raises: Sequence[type] = (), **kw):
    def deco(fn):
        fn.__verif__ = Spec(fn=fn, pre=tuple(pre), post=post, raises=tuple(raises), **kw)
        return fn
    return deco


def resolve(module_name: str, fn_name: str) -> Spec:
    mod = importlib.import_module(module_name)
    fn = getattr(mod, fn_name, None)
    if fn is None and hasattr(mod, "resolve"):
        fn = mod.resolve(fn_name)
    if fn is None:
        raise LookupError(f"{module_name}:{fn_name} not found")
    return fn.__verif__


def specs_of(module_name: str) -> List[Spec]:
    mod = importlib.import_module(module_name)
    out = []
    for v in list(vars(mod).values()):
        s = getattr(v, "__verif__", None)
        if isinstance(s, Spec) and s.fn.__module__ == mod.__name__ and s not in out:
            out.append(s)
    if hasattr(mod, "generated_specs"):
        out.extend(mod.generated_specs())
    return out


def concrete_eval(spec: Spec, kwargs: Dict[str, Any], extra_pre: Sequence[str] = ()):
    """Run a harness concretely.  Returns (status, detail) with status in
    {'pre_failed', 'ok', 'post_false', 'raised'}."""
    g = dict(getattr(spec.fn, "__verif_ns__", None) or spec.fn.__globals__)
    for p in tuple(spec.pre) + tuple(extra_pre):
        try:
            if not eval(p, {**g, **kwargs}):
                return "pre_failed", p
        except Exception as e:  # noqa
            return "pre_failed", f"{p} raised {e!r}"
    import copy
    call_kwargs = copy.deepcopy(kwargs)
    try:
        ret = spec.fn(**call_kwargs)
    except Exception as e:  # noqa
        if isinstance(e, tuple(spec.raises)):
            return "ok", f"expected exception {type(e).__name__}"
        import traceback
        return "raised", "".join(traceback.format_exception(type(e), e, e.__traceback__)[-6:])
    try:
        ok = eval(spec.post, {**g, **call_kwargs, "_": ret})
    except Exception as e:  # noqa
        return "raised", f"postcondition raised {e!r}"
    if ok:
        return "ok", repr(ret)[:300]
    return "post_false", repr(ret)[:600]


def shard(base, param, values, labels, ns, quick=None):
    """One obligation per concrete value of a selector parameter (run in parallel); the base function's other
    parameters stay symbolic.  `ns` is the harness module's globals(); the base loses its own obligation."""
    import inspect
    import re
    spec = base.__verif__
    sig = inspect.signature(base)
    newsig = sig.replace(parameters=[p for n, p in sig.parameters.items() if n != param])
    out = []
    for value, label in zip(values, labels):
        def mk(value):
            def w(*a, **kw):
                b = newsig.bind(*a, **kw)
                return base(**{param: value}, **b.arguments)
            return w
        w = mk(value)
        w.__signature__ = newsig
        w.__annotations__ = {n: p.annotation for n, p in newsig.parameters.items()}
        w.__name__ = w.__qualname__ = f"{base.__name__}__{label}"
        w.__module__ = base.__module__
        w.__globals__.update({})  # noqa (closure globals are vlib.harness; conditions use spec.ns below)
        pre = [f"(lambda {param}: {p})({value!r})" if re.search(rf"\b{param}\b", p) else p for p in spec.pre]
        tiers = spec.tiers if (quick is None or value in quick) else ("thorough",)
        w.__verif__ = Spec(fn=w, pre=tuple(pre), post=spec.post, raises=spec.raises, timeout=spec.timeout,
                           thorough_timeout=spec.thorough_timeout, tiers=tiers, twin=spec.twin,
                           note=f"[{param}={label}] " + spec.note, covers=spec.covers,
                           per_path_timeout=spec.per_path_timeout)
        w.__verif_ns__ = ns
        ns[w.__name__] = w
        out.append(w)
    del base.__verif__
    return out
