"""Engine C helper: loop-state parameterisation of a repo function by AST rewrite at run time.

`parameterize(fn, state)` takes the *live* function object, re-parses its current source and
returns a new function
    step(<original params>, __init_<v>..., __final) -> (original return value, <v>...)
in which
  * the (single) top-level initialisation `v = <const expr>` of every state variable `v`
    is replaced by `v = __init_v`,
  * every statement after the (single) top-level `for` loop except the trailing `return`
    (the finaliser) only runs when `__final` is true,
  * the return value is extended with the final value of every state variable.
The loop body, nested closures and the finaliser are the repo's own statements, untouched.
If the source no longer has that shape `ShapeChanged` is raised (-> obligation reported as
error 'shape changed', never as a violation).
"""
import ast
import inspect
import textwrap


class ShapeChanged(Exception):
    pass


def parameterize(fn, state, name=None):
    fn = inspect.unwrap(fn)
    if isinstance(fn, staticmethod):
        fn = fn.__func__
    src = textwrap.dedent(inspect.getsource(fn))
    tree = ast.parse(src)
    fdef = tree.body[0]
    if not isinstance(fdef, ast.FunctionDef):
        raise ShapeChanged(f"{fn}: not a plain function")
    fdef.decorator_list = []
    body = fdef.body
    loops = [i for i, s in enumerate(body) if isinstance(s, (ast.For, ast.While))]
    if len(loops) != 1:
        raise ShapeChanged(f"{fn.__name__}: expected exactly one top-level loop, found {len(loops)}")
    li = loops[0]
    seen = set()
    for s in body[:li]:
        if isinstance(s, ast.Assign) and len(s.targets) == 1 and isinstance(s.targets[0], ast.Name) \
                and s.targets[0].id in state:
            v = s.targets[0].id
            if v in seen:
                raise ShapeChanged(f"{fn.__name__}: {v} initialised twice")
            seen.add(v)
            s.value = ast.Name(id=f"__init_{v}", ctx=ast.Load())
    missing = set(state) - seen
    if missing:
        raise ShapeChanged(f"{fn.__name__}: no top-level initialisation of {sorted(missing)} before the loop")
    tail = body[li + 1:]
    if not tail or not isinstance(tail[-1], ast.Return):
        raise ShapeChanged(f"{fn.__name__}: function does not end with a return after the loop")
    ret = tail[-1]
    fin = tail[:-1]
    new_tail = []
    if fin:
        new_tail.append(ast.If(test=ast.Name(id="__final", ctx=ast.Load()), body=fin, orelse=[]))
    ret_val = ret.value if ret.value is not None else ast.Constant(value=None)
    new_tail.append(ast.Return(value=ast.Tuple(
        elts=[ret_val] + [ast.Name(id=v, ctx=ast.Load()) for v in state], ctx=ast.Load())))
    fdef.body = body[:li + 1] + new_tail
    for v in state:
        fdef.args.args.append(ast.arg(arg=f"__init_{v}"))
    fdef.args.args.append(ast.arg(arg="__final"))
    fdef.name = name or (fn.__name__ + "__step")
    ast.fix_missing_locations(tree)
    code = compile(tree, filename=f"<loopstate:{fn.__module__}.{fn.__qualname__}>", mode="exec")
    ns = dict(fn.__globals__)
    exec(code, ns)
    return ns[fdef.name]
