"""Engine adaptations applied from the harness side (no repo edit), each semantics-preserving.

coerce_bool_dunders(module): CPython insists that `__bool__` returns a real `bool`; repo classes
whose `__bool__` computes `a > b` on symbolic ints would make the interpreter raise
`TypeError: __bool__ should return bool, returned SymbolicBool` under CrossHair.  The wrapper keeps
the repo's own method and only coerces its result (`True if orig(self) else False`), which forks
on the symbolic condition exactly like an `if` on it would.
"""
import inspect


def coerce_bool_dunders(module):
    n = 0
    for _, cls in inspect.getmembers(module, inspect.isclass):
        if cls.__module__ != module.__name__:
            continue
        orig = cls.__dict__.get("__bool__")
        if orig is None or getattr(orig, "_verif_coerced", False):
            continue

        def make(orig):
            def __bool__(self):
                return True if orig(self) else False
            __bool__._verif_coerced = True
            return __bool__
        try:
            setattr(cls, "__bool__", make(orig))
            n += 1
        except (AttributeError, TypeError):
            pass
    return n


def untraced_constructor(cls):
    """Run a third-party constructor outside CrossHair's tracer (engine workaround: llsd's formatter builds a
    type-keyed dict literal that trips CrossHair's MAP_ADD interception with 'bad argument to internal function').
    No effect on what the constructor computes; a no-op when CrossHair is not loaded (concrete replay)."""
    import sys
    orig = cls.__init__
    if getattr(orig, "_verif_untraced", False):
        return

    def __init__(self, *a, **kw):
        if "crosshair.tracers" in sys.modules:
            from crosshair.tracers import NoTracing
            with NoTracing():
                return orig(self, *a, **kw)
        return orig(self, *a, **kw)
    __init__._verif_untraced = True
    cls.__init__ = __init__


def uuid_realizes_bytes():
    """uuid.UUID.__init__ asserts `isinstance(bytes, bytes_)` in untraced stdlib code, which a CrossHair symbolic bytes
    slice fails although it is a bytes value.  Wrap Hippolyzer's UUID constructor so that a `bytes=` argument is passed
    through builtins.bytes() first (a no-op for real bytes; realizes a symbolic slice).  Semantics-preserving."""
    import builtins
    from hippolyzer.lib.base import datatypes
    orig = datatypes.UUID.__init__
    if getattr(orig, "_verif_wrapped", False):
        return

    def __init__(self, val=None, bytes=None, int=None):
        if bytes is not None and type(bytes) is not builtins.bytes:
            bytes = builtins.bytes(bytes)
        return orig(self, val, bytes=bytes, int=int)
    __init__._verif_wrapped = True
    datatypes.UUID.__init__ = __init__


class PyProxy:
    """pure-Python stand-in for the C extension type lazy_object_proxy.Proxy (environment stub: the
    extension forces/realizes symbolic values at the C boundary). Same contract: wraps a factory, evaluates it on
    first use, exposes the result as __wrapped__."""

    def __init__(self, factory):
        self._factory = factory
        self._have = False
        self._value = None

    @property
    def __wrapped__(self):
        if not self._have:
            self._value = self._factory()
            self._have = True
        return self._value


def python_lazy_proxy(module):
    import types
    module.lazy_object_proxy = types.SimpleNamespace(Proxy=PyProxy)


def force(v):
    return v.__wrapped__ if isinstance(v, PyProxy) else v


def realized_literal_roundtrip(pod) -> bool:
    """ast.literal_eval(repr(pod)) == pod, evaluated on the realized value outside the tracer (compile() is C)."""
    import ast
    import sys
    if "crosshair.tracers" in sys.modules:
        from crosshair.tracers import NoTracing, is_tracing
        if is_tracing():
            from crosshair.core import deep_realize
            pod = deep_realize(pod)
            with NoTracing():
                return _lit(ast, pod)
    return _lit(ast, pod)


def _lit(ast, pod):
    text = repr(pod)
    import re
    if re.search(r"(?<![A-Za-z_'\"])(nan|inf)(?![A-Za-z_'\"])", text):
        return True          # the property speaks of finite numbers only (nan / inf have no literal)
    try:
        return ast.literal_eval(text) == pod
    except (ValueError, SyntaxError):
        return False
