"""CrossHair engine adjustments needed to execute Hippolyzer symbolically.

All of this is part of the trusted base of every Engine-A obligation (see DESIGN.md §0):

1. `struct.Struct(...).pack/unpack/unpack_from` delegate to CrossHair's own symbolic
   implementation of the module-level `struct.pack/unpack` (integers stay symbolic).
2. CrossHair's symbolic clock patches (time.time & co) are removed: Hippolyzer's clocks are
   replaced by harness-controlled shims where they matter, and a symbolic float clock
   only forks inside `logging`.
3. Contract *enforcement* on callees is switched off: harness conditions are built
   programmatically (vlib.harness), repo code carries no contracts, and the enforcement
   tracer's constructor re-implementation breaks `recordclass` C types.
"""
import struct
import time

_INSTALLED = False


def install():
    global _INSTALLED
    if _INSTALLED:
        return
    _INSTALLED = True
    import crosshair.core_and_libs  # noqa: F401  (registers the standard library patches)
    from crosshair import core
    from crosshair.core import register_patch
    from crosshair.libimpl import structlib
    from crosshair.enforce import EnforcedConditions

    import re as _re
    _ITEM = _re.compile(r"(\d*)([a-zA-Z?])")
    _expanded = {}

    def _expand(fmt):
        """'3f' -> 'fff': CrossHair 0.0.110's struct model returns ONE value for a repeat count on non-string codes
        (found via C13: '<16sIBBIBB3f3f3fI16s' came back with 3 floats missing); repeat counts on s/p are kept."""
        out = _expanded.get(fmt)
        if out is None:
            prefix = fmt[0] if fmt[:1] in "@=<>!" else ""
            body = fmt[len(prefix):]
            out = prefix + "".join((m.group(1) + m.group(2)) if m.group(2) in "sp" else m.group(2) * int(m.group(1) or 1)
                                   for m in _ITEM.finditer(body))
            _expanded[fmt] = out
        return out

    def _s_pack(self, *args):
        return structlib._pack(_expand(self.format), *args)

    def _s_unpack(self, buffer):
        return structlib._unpack(_expand(self.format), buffer)

    def _s_unpack_from(self, buffer, offset=0):
        fmt = _expand(self.format)
        return structlib._unpack(fmt, buffer[offset:offset + self.size])

    register_patch(struct.Struct.pack, _s_pack)
    register_patch(struct.Struct.unpack, _s_unpack)
    register_patch(struct.Struct.unpack_from, _s_unpack_from)

    for name in ("time", "time_ns", "monotonic", "monotonic_ns", "perf_counter", "perf_counter_ns",
                 "process_time", "process_time_ns", "sleep"):
        fn = getattr(time, name, None)
        if fn is not None:
            core._PATCH_REGISTRATIONS.pop(fn, None)

    EnforcedConditions.trace_call = lambda self, frame, fn, binding_target: None

    # 4. Text formatting of symbolic values ("fmt" % args, f-strings, which CPython 3.12 also uses for
    #    constant %-formats).  CrossHair either deep-realizes the arguments at once or renders a symbolic
    #    int digit by digit (forking on sign and digit count): both turn one path into an unbounded family
    #    of paths that differ only in a number inside an exception/log message.  The patches below return
    #    a *lazy* str-typed CrossHair value that performs exactly the stock realization + formatting, but
    #    only when something observes the text (sound: every observation forces the real result;
    #    concatenation of lazy pieces stays lazy).
    from crosshair.core import deep_realize
    from crosshair.tracers import NoTracing
    from crosshair.util import CrossHairValue
    from crosshair.libimpl.builtinslib import AnySymbolicStr
    from crosshair import opcode_intercept

    class LazyStr(AnySymbolicStr):
        def __init__(self, thunk):
            self._thunk = thunk
            self._val = None

        def __ch_realize__(self):
            if self._val is None:
                with NoTracing():
                    self._val = self._thunk()
                self._thunk = None
            return self._val

        def __add__(self, other):
            if isinstance(other, (str, AnySymbolicStr)):
                return LazyStr(lambda: _force(self) + _force(other))
            return NotImplemented

        def __radd__(self, other):
            if isinstance(other, (str, AnySymbolicStr)):
                return LazyStr(lambda: _force(other) + _force(self))
            return NotImplemented

        def __len__(self):
            return len(self.__ch_realize__())

        def __getitem__(self, i):
            return self.__ch_realize__()[deep_realize(i)]

        def __eq__(self, other):
            return self.__ch_realize__() == deep_realize(other)

        def __hash__(self):
            return hash(self.__ch_realize__())

        def __iter__(self):
            return iter(self.__ch_realize__())

        def __contains__(self, x):
            return deep_realize(x) in self.__ch_realize__()

    def _force(x):
        if isinstance(x, LazyStr):
            return x.__ch_realize__()
        return deep_realize(x)

    def _has_symbolic(x, depth=0):
        if isinstance(x, CrossHairValue):
            return True
        if depth < 3 and type(x) in (tuple, list):
            return any(_has_symbolic(y, depth + 1) for y in x)
        if depth < 3 and type(x) is dict:
            return any(_has_symbolic(y, depth + 1) for y in x.values())
        return False

    def _percent(self, other):
        with NoTracing():
            lazy = type(self) is str and _has_symbolic(other)
        if lazy:
            return LazyStr(lambda: self.__mod__(deep_realize(other)))
        return self.__mod__(deep_realize(other))

    core._PATCH_REGISTRATIONS.pop(str.__mod__, None)
    register_patch(str.__mod__, _percent)

    FSV = opcode_intercept.FormatStashingValue
    _o_str, _o_fmt, _o_repr = FSV.__str__, FSV.__format__, FSV.__repr__

    def _lazy_wanted(v):
        with NoTracing():
            return _has_symbolic(v) and not isinstance(v, AnySymbolicStr)

    def _fsv_str(self):
        if _lazy_wanted(self.value):
            v = self.value
            self.formatted = LazyStr(lambda: str(deep_realize(v)))
            return ""
        return _o_str(self)

    def _fsv_format(self, fmt):
        if _lazy_wanted(self.value):
            v = self.value
            self.formatted = LazyStr(lambda: format(deep_realize(v), deep_realize(fmt)))
            return ""
        return _o_fmt(self, fmt)

    def _fsv_repr(self):
        if _lazy_wanted(self.value):
            v = self.value
            self.formatted = LazyStr(lambda: repr(deep_realize(v)))
            return ""
        return _o_repr(self)

    FSV.__str__, FSV.__format__, FSV.__repr__ = _fsv_str, _fsv_format, _fsv_repr

    # 5. ExceptionFilter renders an *expected* exception's message for a debug() line even when
    #    debugging is off, which forces the lazy text above; skip the rendering.
    from crosshair.core import ExceptionFilter, CallAnalysis, PostconditionFailed, IgnoreAttempt
    from crosshair.statespace import VerificationStatus
    _o_exit = ExceptionFilter.__exit__

    def _exit(self, exc_type, exc_value, tb):
        with NoTracing():
            expected = (exc_value is not None and self.expected_exceptions
                        and isinstance(exc_value, self.expected_exceptions)
                        and not isinstance(exc_value, (PostconditionFailed, IgnoreAttempt)))
            if expected:
                self.ignore = True
                self.analysis = CallAnalysis(VerificationStatus.CONFIRMED)
                return True
        return _o_exit(self, exc_type, exc_value, tb)

    ExceptionFilter.__exit__ = _exit
