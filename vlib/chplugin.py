"""CrossHair engine adjustments needed to execute Hippolyzer symbolically.

All of this is part of the trusted base of every Engine-A obligation (see DESIGN.md §0):

1. `struct.Struct(...).pack/unpack/unpack_from` delegate to CrossHair's own symbolic
   implementation of the module-level `struct.pack/unpack` (integers stay symbolic).
2. CrossHair's symbolic clock patches (time.time & co) are removed: Hippolyzer's clocks are
   replaced by harness-controlled shims where they matter, and a symbolic float clock
   only forks inside `logging`.
3. Contract *enforcement* on callees is switched off: harness conditions are built
   programmatically (vlib.harness), repo code carries no contracts, and the enforcement
   tracer's constructor re-implementation breaks `recordclass` C types.
"""
import struct
import time

_INSTALLED = False


def install():
    global _INSTALLED
    if _INSTALLED:
        return
    _INSTALLED = True
    import crosshair.core_and_libs  # noqa: F401  (registers the standard library patches)
    from crosshair import core
    from crosshair.core import register_patch
    from crosshair.libimpl import structlib
    from crosshair.enforce import EnforcedConditions

    def _s_pack(self, *args):
        return structlib._pack(self.format, *args)

    def _s_unpack(self, buffer):
        return structlib._unpack(self.format, buffer)

    def _s_unpack_from(self, buffer, offset=0):
        return structlib._unpack_from(self.format, buffer, offset)

    register_patch(struct.Struct.pack, _s_pack)
    register_patch(struct.Struct.unpack, _s_unpack)
    register_patch(struct.Struct.unpack_from, _s_unpack_from)

    for name in ("time", "time_ns", "monotonic", "monotonic_ns", "perf_counter", "perf_counter_ns",
                 "process_time", "process_time_ns", "sleep"):
        fn = getattr(time, name, None)
        if fn is not None:
            core._PATCH_REGISTRATIONS.pop(fn, None)

    EnforcedConditions.trace_call = lambda self, frame, fn, binding_target: None
