"""Concrete replay of a counterexample, in a fresh interpreter, with no symbolic machinery.

usage: python -m vlib.replay FILE.json
The file holds {"property", "kind", "module", "func", "kwargs" (python repr), "extra_pre"}.
Prints REPRODUCED / NOT-REPRODUCED and a JSON line; exit 0 if reproduced, 3 if not.
"""
import json
import sys


def replay_crosshair(rec):
    from vlib import harness as H
    spec = H.resolve(rec["module"], rec["func"])
    kwargs = eval(rec["kwargs"], {})
    status, detail = H.concrete_eval(spec, kwargs, rec.get("extra_pre", ()))
    return status in ("post_false", "raised"), status, detail


def replay_call(rec):
    import importlib
    mod = importlib.import_module(rec["module"])
    fn = getattr(mod, rec["replay_func"])
    ok, detail = fn(rec["counterexample"])
    return bool(ok), "replayed" if ok else "not_reproduced", detail


def main():
    rec = json.load(open(sys.argv[1]))
    if rec.get("kind", "crosshair") == "crosshair":
        rep, status, detail = replay_crosshair(rec)
    else:
        rep, status, detail = replay_call(rec)
    print(json.dumps({"reproduced": rep, "status": status, "detail": str(detail)[-3000:]}))
    print("REPRODUCED" if rep else "NOT-REPRODUCED")
    return 0 if rep else 3


if __name__ == "__main__":
    sys.exit(main())
