"""C04 — packet-ID translation around injected packets is an order-preserving bijection.

Engine A with a *symbolic pre-state*: the tracker's window (k<=4 injected wire IDs), the count of
aged-out injections and the highest ID seen are symbolic mathematical integers constrained only by
the representation invariant RI (each clause of RI is itself proved to be preserved by the two
mutators).  One obligation therefore covers every history that leads to such a state.
"""
from collections import deque

from vlib.harness import harness
from hippolyzer.lib.proxy.circuit import InjectionTracker

_Q = "hippolyzer.lib.proxy.circuit:InjectionTracker."
KMAX = 4


def window(k, p0, p1, p2, p3):
    return [p0, p1, p2, p3][:k]


def ri(k, p0, p1, p2, p3, base, pb, full=False) -> bool:
    """Representation invariant of a tracker reached by any history:
    window strictly increasing; older (aged-out) injections are `base` distinct positive IDs below
    the window, so window[0] > base; highest ID seen >= newest injection; something has aged out
    only if the window is full."""
    if not (0 <= k <= KMAX and base >= 0 and pb >= 0):
        return False
    w = window(k, p0, p1, p2, p3)
    prev = base
    for p in w:
        if not p > prev:
            return False
        prev = p
    if w and not pb >= w[-1]:
        return False
    if base > 0 and not full:
        return False
    if full and k == 0:
        return False
    return True


def small(k: int) -> int:
    """force a concrete python int for a symbolic k in [0, KMAX] (it reaches C code: deque(maxlen=...))."""
    for kk in range(KMAX + 1):
        if k == kk:
            return kk
    raise AssertionError("k out of range")


def mk(k, p0, p1, p2, p3, base, pb, full=False) -> InjectionTracker:
    k = small(k)
    w = window(k, p0, p1, p2, p3)
    t = InjectionTracker(0, maxlen=(k if full else KMAX + 1))
    t.injections = deque(w, maxlen=t._maxlen)
    t._injection_base = base
    t._packet_id_base = pb
    return t


def below(w, x) -> int:
    return sum(1 for p in w if p < x)


_STATE = "ri(k, p0, p1, p2, p3, base, pb, full)"


@harness(timeout=120, pre=[_STATE], post="_",
         note="forward map characterisation from ANY valid state, ANY endpoint id a: w=eff(a) is not an injected id and "
              "w - #{injected < w} - aged_out == a (=> injective, strictly order preserving, avoids injected ids)",
         covers=(_Q + "get_effective_id",))
def fwd_characterisation(k: int, p0: int, p1: int, p2: int, p3: int, base: int, pb: int, full: bool, a: int) -> bool:
    t = mk(k, p0, p1, p2, p3, base, pb, full)
    w = t.get_effective_id(a)
    win = window(k, p0, p1, p2, p3)
    return (not t.was_injected(w)) and w - below(win, w) - base == a


@harness(timeout=120, pre=[_STATE, "a < b"], post="_",
         note="a<b => eff(a)<eff(b) from any valid state (explicit order/injectivity obligation)",
         covers=(_Q + "get_effective_id",))
def fwd_strictly_monotone(k: int, p0: int, p1: int, p2: int, p3: int, base: int, pb: int, full: bool,
                          a: int, b: int) -> bool:
    t = mk(k, p0, p1, p2, p3, base, pb, full)
    return t.get_effective_id(a) < t.get_effective_id(b)


@harness(timeout=120, pre=[_STATE], post="_",
         note="inverse: orig(eff(a)) == a for ANY a, any valid state with any number of injections before/after",
         covers=(_Q + "get_effective_id", _Q + "get_original_id"))
def inverse_roundtrip(k: int, p0: int, p1: int, p2: int, p3: int, base: int, pb: int, full: bool, a: int) -> bool:
    t = mk(k, p0, p1, p2, p3, base, pb, full)
    return t.get_original_id(t.get_effective_id(a)) == a


@harness(timeout=120, pre=[_STATE, "w not in window(k, p0, p1, p2, p3)", "w > base"], post="_",
         note="inverse characterisation: for ANY non-injected wire id w newer than the aged-out injections, "
              "orig(w) == w - #{injected < w} - aged_out, and eff(orig(w)) == w",
         covers=(_Q + "get_original_id", _Q + "get_effective_id"))
def inv_characterisation(k: int, p0: int, p1: int, p2: int, p3: int, base: int, pb: int, full: bool, w: int) -> bool:
    t = mk(k, p0, p1, p2, p3, base, pb, full)
    o = t.get_original_id(w)
    return o == w - below(window(k, p0, p1, p2, p3), w) - base and t.get_effective_id(o) == w


def _ri_of(t: InjectionTracker) -> bool:
    w = list(t.injections)
    prev = t._injection_base
    for p in w:
        if not p > prev:
            return False
        prev = p
    return t._injection_base >= 0 and (not w or t._packet_id_base >= w[-1]) and \
        (t._injection_base == 0 or len(w) == t.injections.maxlen)


@harness(timeout=120, pre=[_STATE, "k < 4 or full"], post="_",
         note="gen_injectable_id from ANY valid state: returns an id above every id seen, which is then reported as "
              "injected; RI is preserved (incl. window eviction with base carry)",
         covers=(_Q + "gen_injectable_id", _Q + "track_seen", _Q + "was_injected"))
def gen_fresh_and_ri(k: int, p0: int, p1: int, p2: int, p3: int, base: int, pb: int, full: bool) -> bool:
    t = mk(k, p0, p1, p2, p3, base, pb, full)
    n = t.gen_injectable_id()
    return n > pb and t.was_injected(n) and _ri_of(t) and t._packet_id_base == n


@harness(timeout=120, pre=[_STATE, "k < 4 or full"], post="_",
         note="stability: after a further injection (with or without eviction of the oldest window entry) every endpoint "
              "id a already translated to a wire id <= highest-seen, and newer than the entry that ages out, translates "
              "to the same wire id, and that wire id translates back to a",
         covers=(_Q + "gen_injectable_id", _Q + "get_effective_id", _Q + "get_original_id"))
def stable_under_injection(k: int, p0: int, p1: int, p2: int, p3: int, base: int, pb: int, full: bool, a: int) -> bool:
    t = mk(k, p0, p1, p2, p3, base, pb, full)
    w = t.get_effective_id(a)
    if w > pb:           # not a previously forwarded id
        return True
    if full and w < p0:  # older than the injection that is about to age out: outside the statement's scope
        return True
    t.gen_injectable_id()
    return t.get_effective_id(a) == w and t.get_original_id(w) == a


@harness(timeout=120, pre=[_STATE], post="_",
         note="track_seen(x) for ANY x: RI preserved, highest-seen is monotone and >= x, translation untouched",
         covers=(_Q + "track_seen",))
def track_seen_step(k: int, p0: int, p1: int, p2: int, p3: int, base: int, pb: int, full: bool, x: int, a: int) -> bool:
    t = mk(k, p0, p1, p2, p3, base, pb, full)
    before = t.get_effective_id(a)
    t.track_seen(x)
    return t._packet_id_base >= pb and t._packet_id_base >= x and _ri_of(t) and t.get_effective_id(a) == before


EVIDENCE = {
    "bounds": "window of k<=4 injected ids (symbolic), any count of aged-out injections, ids are unbounded mathematical "
              "integers; window capacity == k (eviction reached) or > k",
    "explanation": "Symbolic pre-state + one operation: every history of forwards/injections leads to a state satisfying RI "
                   "(RI holds initially and gen_fresh_and_ri/track_seen_step prove each mutator preserves it), so a lemma "
                   "proved from an arbitrary RI-state holds after every history whose window has <=4 entries.",
    "outside": "windows with more than 4 live injections (the loops are unrolled per window entry); ids older than an "
               "aged-out injection (excluded by the statement); packet-id wrap-around (documented unsupported)",
    "assumptions": ["logging calls are side-effect free"],
}
