"""C10 — quantised floats / fixed point are bit-exact inverses on the wire domain  (Engine B).

Every distinct instance reachable from the live spec graph is discovered at run time; its decode /
encode methods are translated from their *current source* into QF_BVFP terms by vlib.pysym with the
raw wire value as a bit-vector, and each obligation is one solver query over ALL raw values:
   RT    enc(dec(u)) == u
   MONO  dec(u) <= dec(u+1)             (adjacent; monotone on the whole domain by transitivity)
   ENDS  dec(min) == lower, dec(max) == upper (exactly) and both encode back
   ZERO  (ranges centred on zero) dec(mid raw) == 0.0, and enc(+0.0)/enc(-0.0) decode to 0.0
   SIDE  the model's side conditions (no int overflow, fmod domain, casts in range) hold for all u
A `sat` answer is replayed on the real method before it is reported.
"""
import dataclasses
import json
import math
import os
import random
import subprocess
import tempfile
import time

import z3

from vlib import pysym
from vlib.main import Ob

import hippolyzer.lib.base.serialization as se
import hippolyzer.lib.base.templates as templates
import hippolyzer.lib.base.llanim as llanim
import hippolyzer.lib.base.mesh as mesh
import numpy as np

PROPERTY = "C10"


# ------------------------------------------------------------------------------------------------
# instance discovery over the live spec graph
# ------------------------------------------------------------------------------------------------
def _children(obj):
    if isinstance(obj, (str, bytes, int, float, bool, type(None), np.ndarray, np.dtype)):
        return
    if isinstance(obj, dict):
        yield from obj.values()
        return
    if isinstance(obj, (list, tuple, set, frozenset)):
        yield from obj
        return
    if isinstance(obj, se.ForwardSerializable):
        try:
            obj._ensure_evaled()
        except Exception:  # noqa
            pass
    if isinstance(obj, type):
        if dataclasses.is_dataclass(obj):
            for f in dataclasses.fields(obj):
                yield from f.metadata.values()
        if issubclass(obj, (se.BaseSubfieldSerializer, se.SerializableBase)):
            for k, v in vars(obj).items():
                if not k.startswith("__"):
                    yield v
        return
    if isinstance(obj, (se.SerializableBase, se.BaseSubfieldSerializer, se.BitfieldEntry)) or \
            (type(obj).__module__ or "").startswith("hippolyzer"):
        for klass in type(obj).__mro__:
            for slot in getattr(klass, "__slots__", ()):
                if hasattr(obj, slot):
                    yield getattr(obj, slot)
        yield from getattr(obj, "__dict__", {}).values()
        for k, v in vars(type(obj)).items():
            if k in ("TEMPLATE", "TEMPLATES", "ADAPTER", "_elem_specs"):
                yield v
        if isinstance(obj, se.Dataclass):
            yield obj._data_cls


def discover():
    roots = list(se.SUBFIELD_SERIALIZERS.values())
    for mod in (templates, llanim, mesh):
        roots.extend(v for k, v in vars(mod).items() if not k.startswith("__"))
    seen = set()
    found = {}
    stack = list(roots)
    while stack:
        o = stack.pop()
        if id(o) in seen:
            continue
        seen.add(id(o))
        if isinstance(o, se.QuantizedFloatBase):
            key = (type(o).__name__, o._child_spec._struct_fmt, getattr(o, "lower", None), getattr(o, "upper", None),
                   bool(o.zero_median), o.step_mag)
            found.setdefault(key, o)
        elif isinstance(o, se.FixedPoint):
            key = ("FixedPoint", o._ser_spec._struct_fmt, o._signed, o._frac_bits, o._min_val, o._max_val)
            found.setdefault(key, o)
        elif isinstance(o, se.QuantizedNumPyArray):
            key = ("QuantizedNumPyArray", o.dtype.str, o.lower, o.upper)
            found.setdefault(key, o)
        try:
            stack.extend(_children(o))
        except Exception:  # noqa
            continue
    return found


def inst_name(key):
    s = "_".join(str(k) for k in key)
    return "".join(ch if ch.isalnum() else "_" for ch in s).strip("_")[:70]


# ------------------------------------------------------------------------------------------------
# encodings
# ------------------------------------------------------------------------------------------------
class Enc:
    """symbolic decode/encode terms of one instance over a raw bit-vector u"""

    def __init__(self, key, inst, duration=None):
        self.key, self.inst = key, inst
        self.side = []
        self.trusted = set()
        self.encoded = []
        kind = key[0]
        if kind == "FixedPoint":
            fmt = inst._ser_spec._struct_fmt
        elif kind == "QuantizedNumPyArray":
            fmt = {"<u2": "H", "<u1": "B", ">u2": "H"}[inst.dtype.str]
        else:
            fmt = inst._child_spec._struct_fmt
        self.bits = {"B": 8, "b": 8, "H": 16, "h": 16}[fmt]
        self.signed = fmt.islower()
        self.u = z3.BitVec("u", self.bits)
        self.raw_min = -(2 ** (self.bits - 1)) if self.signed else 0
        self.raw_max = 2 ** (self.bits - 1) - 1 if self.signed else 2 ** self.bits - 1
        self.duration = duration
        self.sym_duration = None
        if duration == "symbolic":
            # the animation duration is an F32 field: a symbolic float32 in [2^-10, 2^17] s, widened exactly to float64
            self.d32 = z3.FP("dur", z3.Float32())
            self.sym_duration = pysym.SymFloat(z3.fpFPToFP(pysym.RNE, self.d32, pysym.F64))
            self.dur_domain = z3.And(z3.fpGEQ(self.d32, z3.FPVal(2.0 ** -10, z3.Float32())),
                                     z3.fpLEQ(self.d32, z3.FPVal(2.0 ** 17, z3.Float32())))
        self.lower, self.upper = self._range()

    def _range(self):
        k = self.key[0]
        if k == "FixedPoint":
            i = self.inst
            lo = float(i._min_val)
            hi = self.real_dec(self.raw_max)
            return lo, hi
        if k == "QuantizedTime":
            return 0.0, (self.sym_duration if self.sym_duration is not None else self.duration)
        return self.inst.lower, self.inst.upper

    def raw_term(self, u=None):
        u = self.u if u is None else u
        return pysym.SymInt(z3.SignExt(pysym.IW - self.bits, u) if self.signed else z3.ZeroExt(pysym.IW - self.bits, u))

    def _run(self, fn, cls, args):
        ex = pysym.SymExec(fn, self.inst, cls)
        r = ex.call(args)
        self.side.extend(ex.side)
        self.trusted |= ex.trusted
        self.encoded.extend(x for x in ex.encoded if x not in self.encoded)
        return r

    def _method(self, name):
        for c in type(self.inst).__mro__:
            if name in c.__dict__:
                return c.__dict__[name], c
        raise AttributeError(name)

    # --- symbolic
    def dec(self, raw):
        k = self.key[0]
        if k == "FixedPoint":
            f, c = self._method("deserialize")
            # the primitive read is stubbed to "raw in": reader/ctx never reach arithmetic
            stub = _PrimStub(raw)
            saved = self.inst._ser_spec
            try:
                ex = pysym.SymExec(f, self.inst, c, extra_globals={})
                self.inst._ser_spec = stub
                r = ex.call({"reader": None, "ctx": None, "__raw__": raw})
            finally:
                self.inst._ser_spec = saved
            self.side.extend(ex.side)
            self.trusted |= ex.trusted
            self.encoded.extend(x for x in ex.encoded if x not in self.encoded)
            return r
        if k == "QuantizedNumPyArray":
            f, c = self._method("decode")
            r = self._run(f, c, {"val": pysym.SymArr(raw, self.inst.dtype.name), "ctx": None, "pod": False})
            return r.elem
        f, c = self._method("_quantized_to_float")
        return self._run(f, c, {"val": raw, "lower": self.lower, "upper": self.upper})

    def enc(self, val):
        k = self.key[0]
        if k == "FixedPoint":
            f, c = self._method("serialize")
            stub = _PrimStub(None)
            saved = self.inst._ser_spec
            try:
                ex = pysym.SymExec(f, self.inst, c)
                self.inst._ser_spec = stub
                ex.call({"val": val, "writer": None, "ctx": None})
            finally:
                self.inst._ser_spec = saved
            self.side.extend(ex.side)
            self.trusted |= ex.trusted
            self.encoded.extend(x for x in ex.encoded if x not in self.encoded)
            return stub.written
        if k == "QuantizedNumPyArray":
            f, c = self._method("encode")
            r = self._run(f, c, {"val": pysym.SymArr(val, "float64"), "ctx": None})
            return r.elem
        f, c = self._method("_float_to_quantized")
        return self._run(f, c, {"val": val, "lower": self.lower, "upper": self.upper})

    # --- the real code, concretely
    def real_dec(self, raw: int) -> float:
        k = self.key[0]
        if k == "FixedPoint":
            w = se.BufferWriter("<")
            w.write(self.inst._ser_spec, raw)
            return se.BufferReader("<", w.copy_buffer()).read(self.inst)
        if k == "QuantizedNumPyArray":
            return float(self.inst.decode(np.array([raw], dtype=self.inst.dtype), None)[0])
        return self.inst._quantized_to_float(raw, self.lower, self.upper)

    def real_enc(self, val: float) -> int:
        k = self.key[0]
        if k == "FixedPoint":
            w = se.BufferWriter("<")
            w.write(self.inst, val)
            return se.BufferReader("<", w.copy_buffer()).read(self.inst._ser_spec)
        if k == "QuantizedNumPyArray":
            return int(self.inst.encode(np.array([val], dtype=np.float64), None)[0])
        return self.inst._float_to_quantized(val, self.lower, self.upper)


class _PrimStub:
    """FixedPoint's primitive read/write stubbed to 'raw in / raw out' (the primitive codec is C08's)."""

    _pysym_direct = True

    def __init__(self, raw):
        self.raw = raw
        self.written = None

    def calc_size(self):
        return 2

    def deserialize(self, reader, ctx):
        return self.raw

    def serialize(self, val, writer, ctx):
        self.written = val


# pysym evaluates `self._ser_spec.deserialize(reader, ctx)` concretely (no symbolic names in it) and gets the
# stub's raw term back; `float(<SymInt>)` is then symbolic.  To make that work the concrete evaluator must be
# allowed to return symbolic values, which it does (they are just Python objects).


def _smt2_text(solver, var_name):
    return ("(set-option :produce-models true)\n(set-logic QF_BVFP)\n" + solver.to_smt2()
            + f"\n(get-value ({var_name}))\n")


def run_cvc5(solver, timeout_s, var_name="u"):
    """cvc5 binary on the SMT-LIB text of the query.  Returns (result, value-or-None, seconds)."""
    os.makedirs(os.path.join("/verif", ".work"), exist_ok=True)
    with tempfile.NamedTemporaryFile("w", suffix=".smt2", delete=False, dir=os.path.join("/verif", ".work")) as f:
        f.write(_smt2_text(solver, var_name))
        path = f.name
    t0 = time.time()
    try:
        p = subprocess.run(["cvc5", f"--tlimit={int(timeout_s * 1000)}", path], capture_output=True, text=True,
                           timeout=timeout_s + 30)
        out = (p.stdout + "\n" + p.stderr).strip()
        lines = [ln.strip() for ln in out.splitlines() if ln.strip()]
        first = lines[0] if lines else "unknown"
        if first == "unsat":
            return "unsat", None, time.time() - t0
        if first == "sat":
            import re
            mfp = re.search(r"\(fp\s+#b([01])\s+#b([01]+)\s+#b([01]+)\)", out)
            if mfp:
                return "sat", int(mfp.group(1) + mfp.group(2) + mfp.group(3), 2), time.time() - t0
            m = re.search(r"#b([01]+)|#x([0-9a-fA-F]+)", out)
            if m:
                val = int(m.group(1), 2) if m.group(1) else int(m.group(2), 16)
                return "sat", val, time.time() - t0
            return "unknown", None, time.time() - t0
        return "unknown", None, time.time() - t0   # timeouts, (error ...) lines, anything else: inconclusive
    except subprocess.TimeoutExpired:
        return "unknown", None, time.time() - t0
    finally:
        try:
            os.unlink(path)
        except OSError:
            pass


def solve(constraints, timeout_s, prefer_cvc5=False):
    """Decide one query.  8-bit: z3 in-process.  16-bit (prefer_cvc5): cvc5 binary first (fastest on these
    QF_BVFP queries), z3 for the remaining budget if cvc5 is inconclusive."""
    s = z3.Solver()
    for c in constraints:
        s.add(c)
    spent = 0.0
    if prefer_cvc5:
        r, val, dt = run_cvc5(s, timeout_s * 0.6)
        spent += dt
        if r == "unsat":
            return "unsat", None, spent, s, "cvc5"
        if r == "sat":
            return "sat", val, spent, s, "cvc5"
    s.set("timeout", int(max(timeout_s - spent, 10) * 1000))
    t0 = time.time()
    r = s.check()
    spent += time.time() - t0
    if str(r) == "sat":
        return "sat", s.model(), spent, s, "z3"
    return str(r), None, spent, s, "z3"


def cross_check_cvc5(solver, timeout_s):
    return run_cvc5(solver, timeout_s)[0]


def validate_translation(e: Enc, dec_t, enc_of_dec_t, npoints=64):
    """Serval-style translator validation: the generated terms and the real methods must agree bit-for-bit on
    concrete raw values (ends, middle, random with VERIF_SEED)."""
    rng = random.Random(int(os.environ.get("VERIF_SEED", "0") or 0) * 7919 + hash(e.key) % 1000)
    pts = {e.raw_min, e.raw_min + 1, e.raw_max, e.raw_max - 1, 0, (e.raw_min + e.raw_max) // 2,
           (e.raw_min + e.raw_max) // 2 + 1, -1 if e.signed else 1}
    while len(pts) < npoints:
        pts.add(rng.randint(e.raw_min, e.raw_max))
    bad = []
    for p in sorted(pts):
        uval = z3.BitVecVal(p, e.bits)
        d_sym = pysym.eval_term(dec_t, {e.u: uval})
        d_real = e.real_dec(p)
        if not pysym.same_float(float(d_sym), float(d_real)):
            bad.append(("dec", p, d_sym, d_real))
            continue
        r_sym = pysym.eval_term(enc_of_dec_t, {e.u: uval})
        r_real = e.real_enc(d_real)
        if int(r_sym) != int(r_real):
            bad.append(("enc", p, r_sym, r_real))
    return len(pts), bad


def run_instance(key_json, obligation, timeout=300, exclude=(), duration=None, cvc5=False):
    """One obligation of one instance.  Returns the JSON verdict expected by vlib.main.decide_call."""
    key = tuple(json.loads(key_json))
    found = discover()
    inst = found.get(key)
    if inst is None:
        return {"status": "error", "error": f"instance {key} no longer present in the spec graph"}
    if duration == "symbolic":
        return _symbolic_duration(key, inst, obligation, timeout)
    e = Enc(key, inst, duration=duration)
    raw = e.raw_term()
    dec_t = e.dec(raw)
    enc_t = e.enc(dec_t)
    npts, bad = validate_translation(e, dec_t, enc_t)
    if bad:
        return {"status": "error", "error": f"translator validation failed (encoding != real code) at {bad[:3]}"}
    base = []
    known_hits = []
    excluded_raws = set()
    for ex in exclude:     # known-finding predicates are {'raw': value}: excluded from the query, re-checked concretely
        ex = ex if isinstance(ex, dict) else json.loads(ex)
        if "raw" in ex and e.raw_min <= ex["raw"] <= e.raw_max:
            base.append(e.u != z3.BitVecVal(ex["raw"], e.bits))
            excluded_raws.add(ex["raw"])
            if obligation in ("RT", "MONO", "ENDS"):
                want = e.lower if ex["raw"] == e.raw_min else (e.upper if ex["raw"] == e.raw_max else None)
                still, detail = replay({"key": list(key), "obligation": obligation, "raw": ex["raw"], "duration": duration,
                                        "detail": {"want": want}})
                if still and not (obligation == "MONO" and ex["raw"] == e.raw_max):
                    known_hits.append({"predicate": ex, "witness": detail})
    out = {"queries": 0, "solver_s": 0.0, "encoded": e.encoded, "validated_points": npts,
           "bounds": f"all 2^{e.bits} raw values of {key}", "replay_func": "replay", "samples": [],
           "trusted": sorted(e.trusted), "known_hits": known_hits}
    neg = None
    what = ""
    if obligation == "RT":
        neg = [enc_t.t != raw.t]
        what = "enc(dec(u)) != u"
    elif obligation == "MONO":
        u2 = e.u + 1
        e2 = Enc(key, inst, duration=duration)
        e2.u = e.u
        dec2 = e2.dec(e2.raw_term(u2))
        neg = [e.u != z3.BitVecVal(e.raw_max, e.bits), z3.Not(z3.fpLEQ(dec_t.t, dec2.t))]
        what = "dec(u) > dec(u+1)"
    elif obligation == "SIDE":
        neg = [z3.Not(z3.And(*e.side))] if e.side else None
        what = "model side condition violated (overflow / fmod domain / cast range)"
    elif obligation in ("ENDS", "ZERO"):
        return _point_obligation(e, obligation, out, excluded_raws)
    if neg is None:
        out.update(status="proved", detail="no side conditions")
        return out
    res, model, dt, solver, who = solve(base + neg, timeout, prefer_cvc5=(e.bits == 16))
    out["queries"] += 1
    out["solver_s"] += round(dt, 2)
    out["decided_by"] = who
    if res == "unsat" and cvc5:
        # thorough tier: second opinion from the other solver
        if who == "z3":
            r2 = cross_check_cvc5(solver, timeout)
        else:
            solver.set("timeout", int(timeout * 1000))
            r2 = str(solver.check())
        out["cross_check"] = r2
        out["queries"] += 1
        if r2 == "sat":
            out.update(status="error", error=f"{who} says unsat, the other solver says sat: solvers disagree")
            return out
    if res == "unsat":
        out.update(status="proved", detail=f"unsat: no raw value with {what}")
        out["samples"] = [{"raw": p, "dec": e.real_dec(p)} for p in (e.raw_min, 0, e.raw_max)]
        return out
    if res == "sat":
        if isinstance(model, int):
            rawv = model - 2 ** e.bits if (e.signed and model >= 2 ** (e.bits - 1)) else model
        else:
            rawv = model.eval(e.u, model_completion=True)
            rawv = rawv.as_signed_long() if e.signed else rawv.as_long()
        out.update(status="refuted", counterexample={"key": list(key), "obligation": obligation, "raw": rawv,
                                                      "duration": duration},
                   detail=f"{what} at raw={rawv}")
        return out
    out.update(status="unknown", detail=f"solver returned {res} after {dt:.0f}s")
    return out


def _point_obligation(e: Enc, obligation, out, excluded_raws=()):
    """ENDS / ZERO are statements about finitely many raw values: decided by evaluating the *encoding*
    (the validated terms) at those points and requiring the exact IEEE values; replayed on the real code."""
    fails = []
    checks = []
    if obligation == "ENDS":
        checks = [(e.raw_min, e.lower), (e.raw_max, e.upper)]
    else:
        centred = e.lower == -e.upper
        if not centred:
            out.update(status="proved", detail="range not centred on zero: nothing to show")
            out["samples"] = [{"lower": e.lower, "upper": e.upper}]
            return out
        n = e.raw_max - e.raw_min
        if n % 2 == 0:
            checks = [(e.raw_min + n // 2, 0.0)]
        # even number of steps (odd count of values has an exact mid); otherwise both neighbours must decode to 0
        # only if the instance declares zero_median
        elif getattr(e.inst, "zero_median", False):
            checks = [(e.raw_min + n // 2, 0.0), (e.raw_min + n // 2 + 1, 0.0)]
    raw = e.raw_term()
    dec_t = e.dec(raw)
    enc_t = e.enc(dec_t)
    for p, want in checks:
        if p in excluded_raws:
            continue
        d = pysym.eval_term(dec_t, {e.u: z3.BitVecVal(p, e.bits)})
        back = pysym.eval_term(enc_t, {e.u: z3.BitVecVal(p, e.bits)})
        out["queries"] += 2
        if not (d == want) or back != p:
            fails.append({"raw": p, "dec": d, "want": want, "enc_back": back})
    if obligation == "ZERO" and checks:
        for z in (0.0, -0.0):
            q = e.real_enc(z)
            dz = e.real_dec(q)
            out["queries"] += 1
            if dz != 0.0:
                fails.append({"enc_of": repr(z), "raw": q, "dec": dz, "want": 0.0})
    out["samples"] = [{"raw": p, "want": w} for p, w in checks] or [{"note": "no exact mid raw"}]
    if fails:
        f = fails[0]
        out.update(status="refuted", counterexample={"key": list(e.key), "obligation": obligation, "raw": f.get("raw"),
                                                      "duration": e.duration, "detail": f},
                   detail=f"{obligation} fails: {f}")
    else:
        out.update(status="proved", detail=f"{obligation}: {len(checks)} end/mid points exact")
    return out


def _symbolic_duration(key, inst, obligation, timeout):
    """QuantizedTime with the duration itself symbolic (every float32 duration in [2^-10, 2^17] s)."""
    e = Enc(key, inst, duration="symbolic")
    # translator validation is done on the concrete-duration encodings of the sweep; here validate on 3 durations x 8 raws
    for dv in (0.5, 8.25, 1000.0):
        ec = Enc(key, inst, duration=dv)
        raw = ec.raw_term()
        d_t = ec.dec(raw)
        n, bad = validate_translation(ec, d_t, ec.enc(d_t), npoints=12)
        if bad:
            return {"status": "error", "error": f"translator validation failed at duration {dv}: {bad[:2]}"}
    out = {"queries": 0, "solver_s": 0.0, "encoded": e.encoded, "validated_points": 36, "replay_func": "replay",
           "bounds": f"every float32 duration in [2^-10, 2^17] s" + (" x all 2^16 raw values" if obligation == "RT_SYMDUR" else ""),
           "samples": [], "trusted": sorted(e.trusted), "known_hits": []}
    dur = e.sym_duration
    if obligation == "ENDS_SYMDUR":
        top = e.dec(pysym.SymInt(z3.BitVecVal(e.raw_max, pysym.IW)))
        bot = e.dec(pysym.SymInt(z3.BitVecVal(e.raw_min, pysym.IW)))
        back_top = e.enc(top)
        back_bot = e.enc(bot)
        neg = [e.dur_domain, z3.Or(z3.Not(z3.fpEQ(top.t, dur.t)), z3.Not(z3.fpEQ(bot.t, pysym.fp_const(0.0))),
                                   back_top.t != z3.BitVecVal(e.raw_max, pysym.IW),
                                   back_bot.t != z3.BitVecVal(e.raw_min, pysym.IW))]
        what = "an end of [0, duration] does not decode exactly / encode back"
    else:
        raw = e.raw_term()
        d_t = e.dec(raw)
        neg = [e.dur_domain, e.enc(d_t).t != raw.t]
        what = "enc(dec(u)) != u"
    s = z3.Solver()
    for c in neg:
        s.add(c)
    t0 = time.time()
    # portfolio: cvc5 binary first (half the budget), then z3
    r, val, _dt = run_cvc5(s, timeout * 0.5, var_name="dur")
    who = "cvc5"
    model = None
    if r == "unknown":
        s.set("timeout", int(timeout * 0.5 * 1000))
        r = str(s.check())
        who = "z3"
        if r == "sat":
            model = s.model()
    out["queries"] = 1
    out["solver_s"] = round(time.time() - t0, 2)
    out["decided_by"] = who
    if r == "unsat":
        out.update(status="proved", detail=f"unsat: no duration with {what}")
        out["samples"] = [{"duration": "symbolic float32", "raw_max": e.raw_max}]
        return out
    if r == "sat":
        import struct as _st
        if model is not None:
            dv = pysym.fp_to_py(model.eval(z3.fpFPToFP(pysym.RNE, e.d32, pysym.F64), model_completion=True))
        else:
            dv = _st.unpack("<f", _st.pack("<I", val))[0]
        rawv = e.raw_max
        if obligation != "ENDS_SYMDUR":
            if model is None:      # cvc5 gave only the duration: find the raw value with a second, now easy, query
                ec = Enc(key, inst, duration=dv)
                rt = ec.raw_term()
                s2 = z3.Solver()
                s2.add(ec.enc(ec.dec(rt)).t != rt.t)
                s2.set("timeout", 120000)
                if str(s2.check()) != "sat":
                    out.update(status="unknown", detail="cvc5 model could not be completed")
                    return out
                rawv = s2.model().eval(ec.u, model_completion=True).as_long()
            else:
                rawv = model.eval(e.u, model_completion=True).as_long()
        else:
            ec = Enc(key, inst, duration=dv)
            if ec.real_dec(e.raw_max) == dv and ec.real_enc(dv) == e.raw_max:
                rawv = e.raw_min
        out.update(status="refuted", detail=f"{what} at duration={dv!r} raw={rawv}",
                   counterexample={"key": list(key), "obligation": "ENDS" if obligation == "ENDS_SYMDUR" else "RT",
                                   "raw": rawv, "duration": dv,
                                   "detail": {"want": dv if rawv == e.raw_max else 0.0}})
        return out
    out.update(status="unknown", detail=f"solver returned {r} after {out['solver_s']}s")
    return out


def replay(cex):
    """Concrete replay on the real methods (no solver)."""
    key = tuple(cex["key"])
    inst = discover().get(key)
    e = Enc(key, inst, duration=cex.get("duration"))
    ob, raw = cex["obligation"], cex["raw"]
    if ob == "RT":
        d = e.real_dec(raw)
        back = e.real_enc(d)
        return back != raw, f"raw {raw} -> {d!r} -> {back}"
    if ob == "MONO":
        a, b = e.real_dec(raw), e.real_dec(raw + 1)
        return not (a <= b), f"dec({raw})={a!r} dec({raw + 1})={b!r}"
    if ob in ("ENDS", "ZERO"):
        d = e.real_dec(raw)
        back = e.real_enc(d)
        want = cex["detail"].get("want")
        return (d != want) or back != raw, f"raw {raw} -> {d!r} (want {want}) -> {back}"
    if ob == "SIDE":
        return True, "side condition of the model (reported as model limitation)"
    return False, "unknown obligation"


DURATIONS = [2.0 ** -10, 0.1, 1.0, 3.3333332538604736, 30.0, 60.0, 1000.0, 2.0 ** 17]


def obligations(tier, seed):
    found = discover()
    obs = []
    keys16_quick = 0
    for key in sorted(found, key=repr):
        inst = found[key]
        name = inst_name(key)
        kj = json.dumps(list(key))
        e_bits = 16 if any(str(key[1]).endswith(c) for c in ("H", "h", "u2")) else 8
        covers = ("hippolyzer.lib.base.serialization:QuantizedFloatBase._quantized_to_float",
                  "hippolyzer.lib.base.serialization:QuantizedFloatBase._float_to_quantized",
                  "hippolyzer.lib.base.serialization:FixedPoint.serialize",
                  "hippolyzer.lib.base.serialization:FixedPoint.deserialize",
                  "hippolyzer.lib.base.serialization:QuantizedNumPyArray.encode",
                  "hippolyzer.lib.base.serialization:QuantizedNumPyArray.decode",
                  "hippolyzer.lib.base.templates:PackedTERotation._float_to_quantized")
        durs = [None]
        if key[0] == "QuantizedTime":
            durs = DURATIONS if tier == "thorough" else DURATIONS[:4]
            for ob, t in (("ENDS_SYMDUR", 300), ("RT_SYMDUR", 3000)):
                if ob == "RT_SYMDUR" and tier == "quick":
                    continue        # does not finish within the quick budget (unknown after 600 s): thorough only
                obs.append(Ob(name=f"{name}_symbolic_duration__{ob}", module="harness.c10", func="run_instance", kind="call",
                              timeout=t, covers=covers + ("hippolyzer.lib.base.llanim:QuantizedTime.decode",),
                              note=f"{ob} for {key}: the animation duration itself symbolic (every float32 in [2^-10, 2^17] s)"
                                   + (" x all raw values" if ob == "RT_SYMDUR" else ": both ends decode exactly and encode back"),
                              args={"key_json": kj, "obligation": ob, "timeout": t, "duration": "symbolic"}))
        for dur in durs:
            suffix = "" if dur is None else f"_dur{str(dur).replace('.', 'p').replace('-', 'm')}"
            for ob in ("RT", "MONO", "ENDS", "ZERO", "SIDE"):
                if ob in ("RT", "MONO", "SIDE") and e_bits == 16 and tier == "quick":
                    # quick tier: all 8-bit instances + the 16-bit ones with a per-query cap
                    pass
                t = 120 if e_bits == 8 else (600 if tier == "quick" else 1800)
                obs.append(Ob(name=f"{name}{suffix}__{ob}", module="harness.c10", func="run_instance", kind="call",
                              timeout=t, covers=covers,
                              note=f"{ob} for {key}" + (f" duration={dur}" if dur is not None else "")
                              + f": one QF_BVFP query over all 2^{e_bits} raw values"
                              if ob in ("RT", "MONO", "SIDE") else f"{ob} for {key}: exact end/mid point values",
                              args={"key_json": kj, "obligation": ob, "timeout": t, "duration": dur,
                                    "cvc5": tier == "thorough"}))
    return obs


EVIDENCE = {
    "bounds": "every distinct (class, wire type, lower, upper, zero_median, step) instance reachable from the live spec "
              "graph (templates, llanim, mesh, subfield serializers); ALL raw values of the 8/16-bit wire type in one "
              "query per obligation; QuantizedTime: a sweep of concrete durations, each for all raw values",
    "explanation": "Engine B: the decode/encode methods are re-translated from the live source into QF_BVFP terms "
                   "(vlib.pysym, Float64 RNE), validated bit-for-bit against the real methods on >=64 concrete raws per "
                   "instance on every run, then the negated property is handed to z3 (thorough: cross-checked with the "
                   "cvc5 binary).  unsat == holds for all raw values.",
    "outside": "QuantizedTime for durations outside the sweep; numpy element-wise ops are modelled (trusted stubs listed "
               "per obligation)",
    "assumptions": ["CPython float == IEEE-754 binary64 with round-to-nearest-even", "z3 FP theory is sound"],
    "trusted": ["vlib.pysym AST->SMT translator (validated against the real code on concrete points each run)"],
}
