"""C01 — LLUDP codec: every template-conformant message round-trips by value.

Engine A with harnesses *generated from the live message template* at import time (one function per
template; typed parameters per variable instance), so a template or packer change changes the encoding.
"""
import linecache
import os
import struct

from vlib.harness import harness
from hippolyzer.lib.base.message.template_dict import DEFAULT_TEMPLATE_DICT
from hippolyzer.lib.base.message.msgtypes import MsgType, MsgBlockType, MsgFrequency
from hippolyzer.lib.base.message.message import Message, Block
import hippolyzer.lib.base.message.message as _message_mod
from hippolyzer.lib.base.message.udpserializer import UDPMessageSerializer
from hippolyzer.lib.base.message.udpdeserializer import UDPMessageDeserializer
import hippolyzer.lib.base.message.udpdeserializer as _deser_mod
import hippolyzer.lib.base.serialization as se
from hippolyzer.lib.base.datatypes import UUID, Vector3, Vector4, Quaternion, JankStringyBytes
from hippolyzer.lib.base.settings import Settings
from vlib.adapt import coerce_bool_dunders

coerce_bool_dunders(se)
_message_mod.maybe_reload_templates = lambda: None     # os.stat() on every Message(): environment stub

_M = "hippolyzer.lib.base.message."
COVERS = (_M + "udpserializer:UDPMessageSerializer.serialize", _M + "udpserializer:UDPMessageSerializer._serialize_block",
          _M + "udpserializer:UDPMessageSerializer._serialize_var", _M + "udpdeserializer:UDPMessageDeserializer.deserialize",
          _M + "udpdeserializer:UDPMessageDeserializer._parse_message_header",
          _M + "udpdeserializer:UDPMessageDeserializer.parse_message_body",
          _M + "udpdeserializer:UDPMessageDeserializer._parse_var", _M + "udpdeserializer:_parse_msg_num",
          _M + "data_packer:TemplateDataPacker.pack", _M + "data_packer:TemplateDataPacker.unpack",
          _M + "data_packer:_pack_string", _M + "message:Message.__init__", _M + "message:Message.add_block")

INT_RANGE = {
    MsgType.MVT_U8: (0, 2**8 - 1), MsgType.MVT_U16: (0, 2**16 - 1), MsgType.MVT_U32: (0, 2**32 - 1),
    MsgType.MVT_S8: (-2**7, 2**7 - 1), MsgType.MVT_S16: (-2**15, 2**15 - 1), MsgType.MVT_S32: (-2**31, 2**31 - 1),
    MsgType.MVT_BOOL: (0, 255), MsgType.MVT_IP_PORT: (0, 2**16 - 1),
    # 64-bit: catalogue base + symbolic low byte (see C08: z3 does not decide the full 8-byte identity in budget)
    MsgType.MVT_U64: (0, 256 * 8 - 1), MsgType.MVT_S64: (0, 256 * 8 - 1),
}
B64 = [0, 2**16 - 128, 2**32 - 128, 2**48, 2**63 - 256, 2**63, 2**64 - 512, 2**64 - 256]


def _f32(x):
    return struct.unpack("<f", struct.pack("<f", x))[0]


F32 = [0.0, -0.0, 1.5, _f32(-1.25e-3), _f32(3.4028234663852886e+38), _f32(1.401298464324817e-45)]
F64 = [0.0, -0.0, 1.5, -1.25e-3, 1.7976931348623157e308, 5e-324]
UUIDS = [UUID("00000000-0000-0000-0000-000000000000"), UUID("ffffffff-ffff-ffff-ffff-ffffffffffff"),
         UUID("01234567-89ab-cdef-0123-456789abcdef")]
IPS = ["0.0.0.0", "255.255.255.255", "10.1.2.3"]
QUATS = [(0.0, 0.0, 0.0, 1.0), (1.0, 0.0, 0.0, 0.0), (0.5, 0.5, 0.5, 0.5), (0.0, -1.0, 0.0, 0.0)]
BLOBS = [b"", b"a\x00", b"\xff\xfe", b"\x00", b"ab"]
FLAGS = [0x00, 0x40, 0x20, 0x60, 0x05, 0x6F]      # the six non-ACK/ZEROCODED bit patterns (`&` realizes the byte)
NK = 6


def small(x, lo, hi):
    for v in range(lo, hi + 1):
        if x == v:
            return v
    raise AssertionError("selector out of range")


def has_byte(bs, v) -> bool:
    for x in bs:
        if x == v:
            return True
    return False


def fbits(x):
    return struct.pack("<d", float(x))


def norm(v):
    if isinstance(v, (Vector3, Vector4, Quaternion)):
        return (type(v).__name__,) + tuple(fbits(c) for c in v)
    if isinstance(v, float):
        return fbits(v)
    if isinstance(v, (bytes, bytearray, memoryview)):
        return ("b", bytes(v))
    if isinstance(v, UUID):
        return ("uuid", str(v))
    if isinstance(v, tuple):
        return tuple(norm(x) for x in v)
    return v


def msg_norm(msg):
    return [(bn, [[(k, norm(v)) for k, v in b.items()] for b in bl]) for bn, bl in msg.blocks.items()]


# ------------------------------------------------------------------------------------------------
# layout derived from the live template
# ------------------------------------------------------------------------------------------------
class Slot:
    """one variable instance of the message: (block, repetition, variable)"""
    def __init__(self, block, rep, var, kind, idx):
        self.block, self.rep, self.var, self.kind, self.idx = block, rep, var, kind, idx


def layout(tmpl):
    slots = []
    n_int = n_blob = 0
    pos = 0
    nvars_total = sum(len(b.variables) * (b.number if b.block_type == MsgBlockType.MBT_MULTIPLE else
                                          (2 if b.block_type == MsgBlockType.MBT_VARIABLE else 1)) for b in tmpl.blocks)
    max_blobs = 1
    vblocks = [b.name for b in tmpl.blocks if b.block_type == MsgBlockType.MBT_VARIABLE]
    for b in tmpl.blocks:
        reps = 1
        if b.block_type == MsgBlockType.MBT_MULTIPLE:
            reps = b.number
        elif b.block_type == MsgBlockType.MBT_VARIABLE:
            reps = 2
        for r in range(reps):
            for v in b.variables:
                if v.type in INT_RANGE:
                    slots.append(Slot(b, r, v, "int", n_int))
                    n_int += 1
                elif v.type in (MsgType.MVT_VARIABLE, MsgType.MVT_FIXED):
                    # the first two byte fields of a message get their own symbolic bytes, the rest catalogue
                    if n_blob < max_blobs:
                        slots.append(Slot(b, r, v, "blob", n_blob))
                        n_blob += 1
                    else:
                        slots.append(Slot(b, r, v, "catblob", pos))
                else:
                    slots.append(Slot(b, r, v, "cat", pos))
                pos += 1
    return slots, n_int, n_blob, vblocks


def fix_len(b, maxlen):
    """same content, but with a *concrete* length on this path (forks once per length).  A symbolic-length
    payload makes every later buffer offset symbolic, and each index into the datagram a solver query."""
    n = small(len(b), 0, maxlen)
    return bytes([b[i] for i in range(n)])


def fixed_value(var, s):
    """MVT_FIXED value of the template size: up to 4 symbolic leading bytes, constant filler."""
    if var.size <= len(s):
        return bytes(s[:var.size])
    return bytes(s) + b"\x5a" * (var.size - len(s))


def cat_value(var, sel):
    t = var.type
    if t == MsgType.MVT_F32:
        return F32[sel % len(F32)]
    if t == MsgType.MVT_F64:
        return F64[sel % len(F64)]
    if t == MsgType.MVT_LLUUID:
        return UUIDS[sel % len(UUIDS)]
    if t == MsgType.MVT_IP_ADDR:
        return IPS[sel % len(IPS)]
    if t == MsgType.MVT_LLVector3:
        return Vector3(F32[sel % 6], F32[(sel + 1) % 6], F32[(sel + 2) % 6])
    if t == MsgType.MVT_LLVector3d:
        return Vector3(F64[sel % 6], F64[(sel + 1) % 6], F64[(sel + 2) % 6])
    if t == MsgType.MVT_LLVector4:
        return Vector4(F32[sel % 6], F32[(sel + 1) % 6], F32[(sel + 2) % 6], F32[(sel + 3) % 6])
    if t == MsgType.MVT_LLQuaternion:
        return Quaternion(*QUATS[sel % len(QUATS)])
    if t == MsgType.MVT_FIXED:
        return bytes([(sel * 37 + i) % 256 for i in range(var.size)])
    if t == MsgType.MVT_VARIABLE:
        b = BLOBS[sel % len(BLOBS)]
        return canonical_var(var, b)
    raise AssertionError(t)


def text_decodes(b: bytes) -> bool:
    if not b.endswith(b"\x00"):
        return False
    try:
        b.decode("utf8")
        return True
    except UnicodeDecodeError:
        return False


def canonical_var(var, b: bytes):
    """the canonical in-memory form of Variable payload b (what the decoder itself produces), concrete b only"""
    if var.probably_text and not var.probably_binary and text_decodes(b):
        return b.decode("utf8").rstrip("\x00")
    return b


def int_value(var, a):
    if var.type in (MsgType.MVT_U64, MsgType.MVT_S64):
        # a in [0, 2048): catalogue base (a // 256) + symbolic low byte (a % 256), written with linear arithmetic only
        v = None
        for bi in range(len(B64)):
            if bi * 256 <= a < (bi + 1) * 256:
                v = B64[bi] + (a - bi * 256)
                break
        if v is None:
            raise AssertionError("64-bit selector out of range")
        return v - 2**63 if var.type == MsgType.MVT_S64 else v
    return a


def zero_value(var):
    """what a default-filled (unset) variable must decode to: the type's zero value at template width"""
    t = var.type
    if t in INT_RANGE:
        return 0
    if t in (MsgType.MVT_F32, MsgType.MVT_F64):
        return 0.0
    if t == MsgType.MVT_LLUUID:
        return UUID()
    if t == MsgType.MVT_IP_ADDR:
        return "0.0.0.0"
    if t in (MsgType.MVT_LLVector3, MsgType.MVT_LLVector3d):
        return Vector3(0.0, 0.0, 0.0)
    if t == MsgType.MVT_LLVector4:
        return Vector4(0.0, 0.0, 0.0, 0.0)
    if t == MsgType.MVT_LLQuaternion:
        return Quaternion(0.0, 0.0, 0.0)
    if t == MsgType.MVT_FIXED:
        return b"\x00" * var.size
    if t == MsgType.MVT_VARIABLE:
        return b""
    raise AssertionError(t)


def var_wire_size(var, value):
    t = var.type
    if t == MsgType.MVT_VARIABLE:
        if value is None:
            return var.size
        n = len(value.encode("utf8")) + 1 if isinstance(value, str) else len(value)
        return var.size + n
    if t == MsgType.MVT_FIXED:
        return var.size
    return t.size


SER = UDPMessageSerializer()
_SETTINGS = Settings()


def _ident(data):
    return data


def blob_ok(var, s, as_text) -> bool:
    """domain of a symbolic Variable/Fixed payload: the canonical forms the decoder itself produces"""
    if var.type == MsgType.MVT_FIXED:
        return len(s) <= 4
    if len(s) > 3:
        return False
    if as_text and len(s) > 2:
        return False
    if as_text:
        # a str value: ASCII code points 1..127 here (non-ASCII strs are covered by the catalogue / C08)
        for x in s:
            if not 1 <= x <= 127:
                return False
        return var.probably_text and not var.probably_binary
    if var.probably_text and not var.probably_binary:
        # bytes form only for payloads the decoder keeps as bytes: not NUL terminated, or not UTF-8
        return len(s) == 0 or s[len(s) - 1] != 0 or has_byte(s, 0xFF)
    return True


GROUP = 10     # at most this many integer variables are symbolic on one path (selected by the symbolic group index g);
# the others take boundary constants rotated by k.  Every path through a big template otherwise makes >140 solver-checked
# decisions over 40-60 symbolic ints and does not finish inside the per-path budget.


def boundary_int(var, sel):
    lo, hi = INT_RANGE[var.type]
    return [lo, hi, (lo + hi) // 2][sel % 3]


def run_template(name, slots, vblocks, k, n0, n1, miss, ack, nacks, ak0, ak1, zc, fl, pid, extra, ints, blobs, texts,
                 real_zero_coding=False, g=0):
    tmpl = DEFAULT_TEMPLATE_DICT[name]
    k = small(k, 0, NK - 1)
    counts = {}
    for i, bn in enumerate(vblocks):
        counts[bn] = small(n0 if i == 0 else n1, 0, 2)
    nslots = len(slots)
    ngroups = (len(ints) + GROUP - 1) // GROUP
    g = small(g, 0, max(ngroups - 1, 0))
    miss = small(miss, -1, 11)
    flags = FLAGS[small(fl, 0, len(FLAGS) - 1)] + (0x10 if ack else 0) + (0x80 if zc else 0)
    extra = fix_len(extra, 2)
    acks = tuple([ak0, ak1][:small(nacks, 0, 2)])
    blocks = []
    expect = []          # expected decoded (block, [(var, normalized value)...]) in template order
    size = 6 + len(extra) + len(tmpl.freq_num_bytes)
    si = 0
    live_index = 0       # index among the *instantiated* slots, for `miss`
    for b in tmpl.blocks:
        if b.block_type == MsgBlockType.MBT_SINGLE:
            reps, maxreps = 1, 1
        elif b.block_type == MsgBlockType.MBT_MULTIPLE:
            reps, maxreps = b.number, b.number
        else:
            reps, maxreps = counts[b.name], 2
            size += 1
        blist = []
        for r in range(maxreps):
            bvars = {}
            evars = []
            fill = False
            for v in b.variables:
                s = slots[si]
                si += 1
                if r >= reps:
                    continue
                if s.kind == "int":
                    val = int_value(v, ints[s.idx] if s.idx // GROUP == g else boundary_int(v, k + s.idx))
                elif s.kind == "blob":
                    raw = fix_len(blobs[s.idx], 4)
                    if v.type == MsgType.MVT_FIXED:
                        val = fixed_value(v, raw)
                    elif texts[s.idx]:
                        val = "".join([chr(x) for x in raw])
                    else:
                        val = raw
                elif s.kind == "catblob":
                    val = cat_value(v, k + s.idx)
                else:
                    val = cat_value(v, k + s.idx)
                if live_index == miss:
                    fill = True
                    size += var_wire_size(v, None)
                    evars.append((v.name, norm(zero_value(v))))
                else:
                    bvars[v.name] = val
                    size += var_wire_size(v, val)
                    evars.append((v.name, norm(val)))
                live_index += 1
            if r < reps:
                blist.append(Block(b.name, fill_missing=fill, **bvars))
                expect.append((b.name, evars))
        blocks.append((b.name, blist))
    msg = Message(name, packet_id=pid, flags=flags, acks=acks)
    for bname, blist in blocks:
        msg.create_block_list(bname)
        for blk in blist:
            msg.add_block(blk)
    msg.extra = extra
    if acks and ack:
        size += 4 * len(acks) + 1
    elif ack:
        size += 1
    saved = (UDPMessageSerializer.zero_code_compress, UDPMessageDeserializer.zero_code_expand,
             _deser_mod.JankStringyBytes)
    if not real_zero_coding:
        UDPMessageSerializer.zero_code_compress = staticmethod(_ident)
        UDPMessageDeserializer.zero_code_expand = staticmethod(_ident)
    _deser_mod.JankStringyBytes = bytes          # C bytes-subclass constructor realizes symbolic bytes (see DESIGN)
    try:
        data = SER.serialize(msg)
        if not zc and len(data) != size:
            return False
        deser = UDPMessageDeserializer(settings=_SETTINGS)
        got = deser.deserialize(data)
        got_blocks = [(bn, [[(kk, norm(vv)) for kk, vv in blk.items()] for blk in bl]) for bn, bl in got.blocks.items()]
        want_blocks = []
        for bname, blist in blocks:
            want_blocks.append((bname, [ev for (bn2, ev) in expect if bn2 == bname]))
        if got.name != name or got_blocks != want_blocks:
            return False
        if got.send_flags != flags or got.packet_id != pid or bytes(got.extra) != extra:
            return False
        if ack and tuple(got.acks) != acks:
            return False
        # re-serialising the decoded message gives identical bytes (datagrams of big templates are several hundred
        # symbolic bytes: compared only for templates with <= 24 variable instances; value equality above covers all)
        if nslots > 24:
            return True
        again = SER.serialize(got)
        return again == data
    finally:
        UDPMessageSerializer.zero_code_compress, UDPMessageDeserializer.zero_code_expand, \
            _deser_mod.JankStringyBytes = saved


# ------------------------------------------------------------------------------------------------
# generation
# ------------------------------------------------------------------------------------------------
LAYOUTS = {}
# body harnesses: the header is fixed except for the packet id and the ZEROCODED bit (header x body independence is
# covered by header_matrix below, which makes every header quantity symbolic over four frequency classes)
_HDR_PRE = []      # ranges are imposed by construction (lo + i % span), not by preconditions: every precondition clause
# costs CrossHair one extra (failing) path per run


def _gen_source(tname, slots, n_int, n_blob, nvb, has_cat, fill):
    """body harness (fill=False): selectors k (catalogue rotation, only if the template has catalogue-valued fields),
    n0/n1 (Variable block counts, only if it has such blocks).  fill harness (fill=True): `miss` selects which of the
    first variable instances is left unset in a fill_missing block; counts fixed to 1, catalogue rotation fixed."""
    params = ["pid: int"]
    pre = list(_HDR_PRE)
    rng = ["(0 <= pid) & (pid < 2**32)"]
    # all ranges as ONE non-short-circuit conjunction of symbolic bools:
    # a chained/`and` comparison is a decision point per clause, each costing CrossHair one failing path per run
    call = {"k": "0", "n0": "1", "n1": "1", "miss": "-1", "g": "0"}
    ngroups = (n_int + GROUP - 1) // GROUP
    if ngroups > 1:
        params.append("g: int")
        pre.append(f"0 <= g < {ngroups}")
        call["g"] = "g"
    if fill:
        params.append("miss: int")
        pre.append(f"0 <= miss < {min(len(slots), 12)}")
        call["miss"] = "miss"
    else:
        if has_cat:
            params.append("k: int")
            pre.append("0 <= k < 2")
            call["k"] = "k"
        if nvb >= 1:
            params.append("n0: int")
            pre.append("0 <= n0 <= 2")
            call["n0"] = "n0"
        if nvb >= 2:
            params.append("n1: int")
            pre.append("0 <= n1 <= 1")
            call["n1"] = "n1"
    for s in slots:
        if s.kind == "int":
            lo, hi = INT_RANGE[s.var.type]
            params.append(f"i{s.idx}: int")
            rng.append(f"({lo} <= i{s.idx}) & (i{s.idx} <= {hi})")
        elif s.kind == "blob" and not fill:
            params.append(f"s{s.idx}: bytes")
            params.append(f"t{s.idx}: bool")
            pre.append(f"blob_ok(LAYOUTS[{tname!r}][0][{slots.index(s)}].var, s{s.idx}, t{s.idx})")
    pre.insert(0, " & ".join(rng))
    ints = ", ".join(f"i{j}" for j in range(n_int))
    blobs = ", ".join((f"s{j}" if not fill else "b'q'") for j in range(n_blob))
    texts = ", ".join((f"t{j}" if not fill else "False") for j in range(n_blob))
    fname = ("F_" if fill else "T_") + tname
    src = (f"def {fname}({', '.join(params)}) -> bool:\n"
           f"    L = LAYOUTS[{tname!r}]\n"
           f"    return run_template({tname!r}, L[0], L[3], {call['k']}, {call['n0']}, {call['n1']}, {call['miss']}, "
           f"False, 0, 0, 0, False, 1, pid, b'',\n"
           f"                        [{ints}], [{blobs}], [{texts}], g={call['g']})\n")
    return fname, src, pre


def _generate():
    for tmpl in DEFAULT_TEMPLATE_DICT:
        slots, n_int, n_blob, vblocks = layout(tmpl)
        LAYOUTS[tmpl.name] = (slots, n_int, n_blob, vblocks)
        has_cat = any(s.kind in ("cat", "catblob") for s in slots)
        for fill in (False, True):
            if fill and not slots:
                continue
            fn_name, src, pre = _gen_source(tmpl.name, slots, n_int, n_blob, len(vblocks), has_cat, fill)
            fname = f"<c01-generated:{fn_name}>"
            linecache.cache[fname] = (len(src), None, src.splitlines(True), fname)
            ns = globals()
            exec(compile(src, fname, "exec"), ns)
            fn = ns[fn_name]
            fn.__module__ = __name__
            if fill:
                note = (f"default filling in {tmpl.name}: each of the first {min(len(slots), 12)} variable instances in turn is "
                        "left unset in a fill_missing block (other ints/payloads symbolic): the datagram has exactly the "
                        "template-prescribed length and decodes to that variable's zero value, everything else intact")
            else:
                note = (f"template {tmpl.name} ({len(tmpl.blocks)} blocks, {len(slots)} variable instances): every int variable "
                        "over its full wire range, Variable/Fixed payloads (1 symbolic: <=3 bytes or <=2-char str, rest "
                        "catalogue), Variable-block counts 0..2, packet id symbolic: decode(encode(m)) == m field by field, "
                        "datagram length == template size, re-encode identical")
            harness(pre=pre, post="_", timeout=240, thorough_timeout=1500 if len(slots) > 40 else 600, covers=COVERS,
                    note=note)(fn)


_generate()

# the quick tier runs a stratified core (every MsgType, every block type, all four frequencies) + seeded extras
CORE = ["PacketAck", "TestMessage", "ChatFromViewer", "ImprovedInstantMessage", "AgentUpdate", "ObjectUpdateCached",
        "SystemMessage", "UseCircuitCode", "CompletePingCheck", "StartPingCheck", "OpenCircuit", "TeleportFinish",
        "ViewerEffect", "CoarseLocationUpdate", "ParcelOverlay", "EnableSimulator", "KillObject", "ScriptDialog",
        "TransferPacket", "SendXferPacket", "AvatarAnimation", "LayerData", "ImprovedTerseObjectUpdate",
        "ObjectUpdateCompressed", "GenericMessage", "EconomyData", "NearestLandingRegionReply", "HealthMessage"]


# templates that together contain every MsgType (for the default-filling obligations of the quick tier)
FILL_CORE = ["SystemMessage", "TestMessage", "ObjectUpdateCached", "OpenCircuit", "ChatFromViewer", "AgentUpdate",
             "ViewerEffect", "EnableSimulator", "TeleportFinish", "UpdateUserInfo", "EconomyData",
             "AgentMovementComplete", "CameraConstraint"]


def obligations(tier, seed):
    from vlib.main import default_obligations
    import random
    allobs = {o.name: o for o in default_obligations("harness.c01", tier)}
    names = [n for n in allobs if n.startswith("T_")]
    fills = [n for n in allobs if n.startswith("F_")]
    if tier == "thorough":
        chosen = names + fills
    else:
        core = [f"T_{n}" for n in CORE if f"T_{n}" in allobs]
        rest = sorted(set(names) - set(core))
        rng = random.Random(seed)
        chosen = core + rng.sample(rest, 8) + [f"F_{n}" for n in FILL_CORE if f"F_{n}" in allobs]
    return [allobs[n] for n in chosen] + [o for n, o in allobs.items() if not n.startswith(("T_", "F_"))]


_HM = ["PacketAck", "StartPingCheck", "CoarseLocationUpdate", "ChatFromViewer"]   # Fixed / High / Medium / Low frequency


def _mk_header_matrix(ti):
    tname = _HM[ti]

    def fn(fl: int, ack: bool, nacks: int, ak0: int, ak1: int, zc: bool, pid: int, extra: bytes, n0: int, i0: int,
           i1: int) -> bool:
        L = LAYOUTS[tname]
        ints = [i0, i1] + [1] * (L[1] - 2) if L[1] >= 2 else [i0][:L[1]]
        return run_template(tname, L[0], L[3], 0, n0, 1, -1, ack, nacks, ak0, ak1, zc, fl, pid, extra,
                            ints, [b"x", b"y"][:L[2]], [False, False][:L[2]])
    fn.__name__ = fn.__qualname__ = f"header_matrix_{tname}"
    return harness(pre=["(0 <= ak0) & (ak0 < 2**32) & (0 <= ak1) & (ak1 < 2**32) & (0 <= pid) & (pid < 2**32) & (0 <= i0) & "
                        "(i0 <= 255) & (0 <= i1) & (i1 <= 255) & (n0 == 1)",
                        "fl in (0, 1, 5)", "0 <= nacks <= 2", "nacks == 0 or ack", "len(extra) <= 2"],
                   post="_", timeout=400, covers=COVERS,
                   note=f"header x trailer matrix on {tname}: every combination of ACK/ZEROCODED (symbolic) x 3 patterns (0x00, 0x40, 0x6F) of the "
                        "other flag bits, packet id (full U32), 0..2 appended acks (full U32 each), 0..2 extra header bytes "
                        "(symbolic), with a small symbolic body: flags/id/acks/extra and body all survive, length == "
                        "template size")(fn)


for _ti in range(len(_HM)):
    _f = _mk_header_matrix(_ti)
    globals()[_f.__name__] = _f
del _f


@harness(pre=["0 <= tsel <= 2", "len(body) <= 3", "len(extra) <= 1", "pid == 0x00010203", "0 <= a0 <= 255"], post="_", timeout=400,
         note="real zero-coding on the wire for PacketAck / TestMessage / ChatFromViewer: message with symbolic small fields "
              "and ZEROCODED set round-trips through the real compress/expand pair incl. the zero-coded header peek for "
              "every extra length 0..2 and every message-number width",
         covers=COVERS + (_M + "udpserializer:UDPMessageSerializer.zero_code_compress",
                          _M + "udpdeserializer:UDPMessageDeserializer.zero_code_expand"))
def zerocoded_real(tsel: int, body: bytes, extra: bytes, pid: int, ack: bool, a0: int) -> bool:
    tsel = small(tsel, 0, 2)
    flags = 0x80 + (0x10 if ack else 0)
    acks = (a0 % 2**32,) if ack else ()
    if tsel == 0:
        ids = [x for x in body[:2]]
        msg = Message("PacketAck", *[Block("Packets", ID=i) for i in ids], packet_id=pid, flags=flags, acks=acks)
        if not ids:
            msg.create_block_list("Packets")
    elif tsel == 1:
        vals = [x for x in body[:5]] + [0] * (5 - len(body[:5]))
        msg = Message("TestMessage", Block("TestBlock1", Test1=vals[0]),
                      *[Block("NeighborBlock", Test0=vals[1 + i], Test1=0, Test2=vals[1 + i] * 256) for i in range(4)],
                      packet_id=pid, flags=flags, acks=acks)
    else:
        msg = Message("ChatFromViewer", Block("AgentData", AgentID=UUIDS[0], SessionID=UUIDS[2]),
                      Block("ChatData", Message=bytes(body[:3]) + b"\x01", Type=body[3] if len(body) > 3 else 0,
                            Channel=(body[4] if len(body) > 4 else 0) - 3),
                      packet_id=pid, flags=flags, acks=acks)
    msg.extra = extra
    saved = _deser_mod.JankStringyBytes
    _deser_mod.JankStringyBytes = bytes
    try:
        data = SER.serialize(msg)
        deser = UDPMessageDeserializer(settings=_SETTINGS)     # must outlive the lazy body parse (weakref)
        got = deser.deserialize(data)
        return got.name == msg.name and msg_norm(got) == msg_norm(msg) and bytes(got.extra) == extra \
            and got.packet_id == pid and got.send_flags == flags and (not ack or tuple(got.acks) == acks) \
            and SER.serialize(got) == data
    finally:
        _deser_mod.JankStringyBytes = saved


@harness(pre=["0 <= sel < 5", "0 <= vsel <= 2"], post="_", timeout=120,
         note="real JankStringyBytes wrapper (not stubbed) on concrete catalogue payloads incl. embedded NUL, invalid UTF-8, "
              "NUL-terminated text: decoded value equals canonical form and re-encodes identically",
         covers=(_M + "udpdeserializer:UDPMessageDeserializer._parse_var", "hippolyzer.lib.base.datatypes:JankStringyBytes"))
def jank_bytes_catalogue(sel: int, vsel: int) -> bool:
    payload = [b"", b"a\x00", b"\xff\xfe\x00", b"a\x00b", b"caf\xc3\xa9\x00"][small(sel, 0, 4)]
    vsel = small(vsel, 0, 2)
    if vsel == 0:
        msg = Message("ChatFromViewer", Block("AgentData", AgentID=UUIDS[0], SessionID=UUIDS[1]),
                      Block("ChatData", Message=payload, Type=1, Channel=0), packet_id=1)
        field = ("ChatData", "Message")
    elif vsel == 1:
        msg = Message("GenericMessage", Block("AgentData", AgentID=UUIDS[0], SessionID=UUIDS[1], TransactionID=UUIDS[2]),
                      Block("MethodData", Method="m", Invoice=UUIDS[0]), Block("ParamList", Parameter=payload), packet_id=1)
        field = ("ParamList", "Parameter")
    else:
        msg = Message("ObjectImage", Block("AgentData", AgentID=UUIDS[0], SessionID=UUIDS[1]),
                      Block("ObjectData", ObjectLocalID=1, MediaURL=b"", TextureEntry=payload), packet_id=1)
        field = ("ObjectData", "TextureEntry")
    data = SER.serialize(msg)
    deser = UDPMessageDeserializer(settings=_SETTINGS)         # must outlive the lazy body parse (weakref)
    got = deser.deserialize(data)
    val = got[field[0]][0][field[1]]
    tvar = DEFAULT_TEMPLATE_DICT[msg.name].get_block(field[0]).get_variable(field[1])
    want = canonical_var(tvar, payload)
    same_kind = (isinstance(val, str) and isinstance(want, str)) or (isinstance(val, bytes) and isinstance(want, bytes))
    return same_kind and val == want and SER.serialize(got) == data


@harness(pre=["n in (254, 255)", "(0 <= i0) & (i0 < 2**32)"], post="_", timeout=300,
         note="block-count boundary: a Variable block repeated 254 / 255 times (the U8 count maximum; first entry symbolic, the "
              "rest concrete) round-trips with every entry intact",
         covers=COVERS)
def block_count_boundary(n: int, i0: int) -> bool:
    n = 254 if n == 254 else 255
    ids = [i0] + [(7 * j) % 2**32 for j in range(1, n)]
    msg = Message("PacketAck", *[Block("Packets", ID=x) for x in ids], packet_id=9)
    data = SER.serialize(msg)
    deser = UDPMessageDeserializer(settings=_SETTINGS)
    got = deser.deserialize(data)
    blocks = got["Packets"]
    return len(blocks) == n and blocks[0]["ID"] == i0 and all(blocks[j]["ID"] == ids[j] for j in (1, n // 2, n - 1)) \
        and len(data) == 6 + 4 + 1 + 4 * n


@harness(pre=["0 <= tsel <= 2", "n in (6, 8, 10, 16)", "x in (1, 255)"], post="_", timeout=400,
         note="zero-coded header peek with a long extra field of isolated zero bytes ((00 x) * n, n in {6,8,10,16}, x in {1,255}, "
              "each zero doubling when zero-coded) for a Fixed / High / Low frequency message: the datagram the serializer "
              "produces decodes to the same message, extra and flags",
         covers=COVERS + (_M + "udpserializer:UDPMessageSerializer.zero_code_compress",
                          _M + "udpdeserializer:UDPMessageDeserializer.zero_code_expand"))
def zerocoded_long_extra(tsel: int, n: int, x: int) -> bool:
    tsel = small(tsel, 0, 2)
    n = small(n, 6, 16)
    extra = bytes([0, x]) * n
    if tsel == 0:
        msg = Message("PacketAck", Block("Packets", ID=5), packet_id=3, flags=0x80)
    elif tsel == 1:
        msg = Message("StartPingCheck", Block("PingID", PingID=1, OldestUnacked=0), packet_id=3, flags=0x80)
    else:
        msg = Message("ChatFromViewer", Block("AgentData", AgentID=UUIDS[0], SessionID=UUIDS[2]),
                      Block("ChatData", Message="a", Type=1, Channel=0), packet_id=3, flags=0x80)
    msg.extra = extra
    data = SER.serialize(msg)
    deser = UDPMessageDeserializer(settings=_SETTINGS)
    got = deser.deserialize(data)
    return got.name == msg.name and bytes(got.extra) == extra and got.send_flags == 0x80 and got.to_dict() == msg.to_dict()


def _shard_zc():
    import inspect
    base = zerocoded_real
    spec = base.__verif__
    for v, lb in enumerate(["PacketAck", "TestMessage", "ChatFromViewer"]):
        def mk(v):
            def w(body: bytes, extra: bytes, pid: int, ack: bool, a0: int) -> bool:
                return base(v, body, extra, pid, ack, a0)
            return w
        w = mk(v)
        w.__name__ = w.__qualname__ = f"zerocoded_real_{lb}"
        w.__module__ = __name__
        globals()[w.__name__] = harness(pre=[p for p in spec.pre if "tsel" not in p], post="_", timeout=spec.timeout,
                                        note=f"[{lb}] " + spec.note, covers=spec.covers)(w)
    del base.__verif__


_shard_zc()

EVIDENCE = {
    "bounds": "per template: all integer variables full wire range (64-bit: 8 bases + symbolic low byte); two symbolic "
              "Variable/Fixed payloads of <=3 (Fixed: <=4 leading) bytes in bytes and str form, other payloads from a 5-entry "
              "catalogue; Variable block counts 0..2 (first variable block independent, others shared); acks 0..2 symbolic "
              "U32; extra 0..2 symbolic bytes; packet id full U32; flags: ACK/ZEROCODED symbolic x 6 patterns of the other "
              "bits; at most one of the first 8 variable instances unset under fill_missing. quick: 28 core templates + 8 "
              "seeded; thorough: all templates",
    "outside": "floats/vectors/quaternions/UUIDs/IP addresses from catalogues (C struct trusted); Variable payloads >3 bytes "
               "and block counts >2 (255-entry boundary) outside the claim; zero-coding stubbed by the identity pair except in "
               "zerocoded_real (justified by C03); JankStringyBytes wrapper stubbed by bytes except in jank_bytes_catalogue",
    "assumptions": ["text-like Variable fields carry values in the canonical form the decoder itself produces",
                    "acks compared only when the ACK flag is set (the serializer writes flags verbatim)"],
}
