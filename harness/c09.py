"""C09 — every registered subfield (pretty) serializer is lossless against the wire.

Obligations are enumerated from the live registry se.SUBFIELD_SERIALIZERS (the wire type comes from the live message
template) and de-duplicated per (serializer class / enum class, wire type).
  * enum serializers: the raw integer is symbolic over the variable's FULL wire range (one fork per member);
  * flag serializers: the raw integer is chosen by the solver from {0, every single bit, all ones, type max, type min,
    -1 for signed fields} (CrossHair realizes the operands of `&`/`|`, so a wide flag word is enumerated, not symbolic);
  * adapter serializers (object state, xfer packet id, dates): symbolic integer over the wire range with the sibling
    context field chosen symbolically;
  * byte-payload serializers: any symbolic payload (<= 4 bytes) the deserializer accepts reaches, after one decode /
    encode pass, a fixed point that decodes to an equal value.
Both the object form and the plain-data form are checked; the plain-data form must evaluate back from its repr().
"""
import ast
import datetime

from vlib.harness import harness
import hippolyzer.lib.base.message.message as _message_mod
import hippolyzer.lib.base.serialization as se
import hippolyzer.lib.base.templates as tmpls   # noqa: F401  (registers the serializers)
from hippolyzer.lib.base.message.message import Block
from hippolyzer.lib.base.message.msgtypes import MsgType
from hippolyzer.lib.base.message.template_dict import DEFAULT_TEMPLATE_DICT
from vlib.adapt import coerce_bool_dunders, uuid_realizes_bytes, python_lazy_proxy, force, realized_literal_roundtrip

coerce_bool_dunders(se)
uuid_realizes_bytes()
python_lazy_proxy(se)
_message_mod.maybe_reload_templates = lambda: None

_S = "hippolyzer.lib.base.serialization:"
COVERS = (_S + "IntEnum.decode", _S + "IntEnum.encode", _S + "IntFlag.decode", _S + "IntFlag.encode",
          _S + "AdapterInstanceSubfieldSerializer.serialize", _S + "AdapterInstanceSubfieldSerializer.deserialize",
          _S + "IntEnumSubfieldSerializer.deserialize", _S + "AdapterSubfieldSerializer.serialize",
          _S + "SimpleSubfieldSerializer.deserialize", _S + "EnumSwitchedSubfieldSerializer.deserialize",
          "hippolyzer.lib.base.datatypes:flags_to_pod", "hippolyzer.lib.base.message.message:Block.deserialize_var",
          "hippolyzer.lib.base.message.message:Block.serialize_var")

RANGES = {MsgType.MVT_U8: (0, 2**8 - 1), MsgType.MVT_U16: (0, 2**16 - 1), MsgType.MVT_U32: (0, 2**32 - 1),
          MsgType.MVT_U64: (0, 2**64 - 1), MsgType.MVT_S8: (-2**7, 2**7 - 1), MsgType.MVT_S16: (-2**15, 2**15 - 1),
          MsgType.MVT_S32: (-2**31, 2**31 - 1), MsgType.MVT_S64: (-2**63, 2**63 - 1), MsgType.MVT_BOOL: (0, 1)}


def small(x, lo, hi):
    for v in range(lo, hi + 1):
        if x == v:
            return v
    raise AssertionError("selector out of range")


def wire_type(key):
    m, b, v = key
    t = DEFAULT_TEMPLATE_DICT[m]
    try:
        return t.get_block(b).get_variable(v).type
    except Exception:  # noqa
        return MsgType.MVT_U32


REG = dict(se.SUBFIELD_SERIALIZERS)
ENUM_CASES = {}     # (enum class name, wire type) -> (key, serializer)
FLAG_CASES = {}
for _k, _s in REG.items():
    if isinstance(_s, se.IntEnumSubfieldSerializer):
        ENUM_CASES.setdefault((_s._adapter.enum_cls.__name__, wire_type(_k)), (_k, _s))
    elif isinstance(_s, se.IntFlagSubfieldSerializer):
        FLAG_CASES.setdefault((_s._adapter.flag_cls.__name__, wire_type(_k)), (_k, _s))


def ident(s):
    return "".join(ch if ch.isalnum() else "_" for ch in s)


def literal_roundtrips(pod) -> bool:
    if pod is se.UNSERIALIZABLE:
        return True
    return realized_literal_roundtrip(pod)


def _mk_enum(name, wt, key, ser):
    lo, hi = RANGES[wt]
    blk = Block(key[1])
    blk.message_name = key[0]

    def fn(raw: int, pod: bool) -> bool:
        val = ser.deserialize(blk, raw, pod=pod)
        if val is se.UNSERIALIZABLE:
            return pod            # only the plain-data form may decline (unknown member): the raw int is shown instead
        if pod and not literal_roundtrips(val):
            return False
        return ser.serialize(blk, val) == raw
    fn.__name__ = fn.__qualname__ = f"enum_{ident(name)}_{wt.name[4:]}"
    return harness(pre=[f"({lo} <= raw) & (raw <= {hi})"], post="_", timeout=200, covers=COVERS,
                   note=f"enum serializer {name} on {wt.name} (e.g. {'.'.join(key)}): EVERY raw integer of the wire type survives "
                        "decode-then-encode in object form and plain-data form (names), unknown members stay integers; "
                        "the plain-data form evaluates back from its repr")(fn)


def flag_domain(wt):
    lo, hi = RANGES[wt]
    bits = {MsgType.MVT_U8: 8, MsgType.MVT_U16: 16, MsgType.MVT_U32: 32, MsgType.MVT_U64: 64, MsgType.MVT_S8: 8,
            MsgType.MVT_S16: 16, MsgType.MVT_S32: 32, MsgType.MVT_S64: 64}[wt]
    vals = [0, hi, lo] + [1 << i for i in range(bits) if lo <= (1 << i) <= hi]
    if lo < 0:
        vals += [-1, -2, lo + 1]
    vals += [hi - 1, 0x55555555 & hi, 0x2AAAAAAA & hi]
    out = []
    for v in vals:
        if v not in out:
            out.append(v)
    return out


def _mk_flag(name, wt, key, ser):
    dom = flag_domain(wt)
    blk = Block(key[1])
    blk.message_name = key[0]
    for v in dom:                      # enum.Flag pseudo-member cache (deterministic across CrossHair paths)
        try:
            ser._adapter.flag_cls(v)
        except Exception:  # noqa
            pass

    def fn(sel: int, pod: bool) -> bool:
        raw = dom[small(sel, 0, len(dom) - 1)]
        val = ser.deserialize(blk, raw, pod=pod)
        if pod and not literal_roundtrips(val):
            return False
        back = ser.serialize(blk, val)
        return int(back) == raw
    fn.__name__ = fn.__qualname__ = f"flag_{ident(name)}_{wt.name[4:]}"
    return harness(pre=[f"0 <= sel < {len(dom)}"], post="_", timeout=200, covers=COVERS,
                   note=f"flag serializer {name} on {wt.name} (e.g. {'.'.join(key)}): raw values 0 / every single bit / all "
                        f"ones / type min and max / -1 for signed fields ({len(dom)} values, solver-selected) survive decode-"
                        "then-encode in object form and plain-data form (member names + leftover bits); the plain-data form "
                        "evaluates back from its repr")(fn)


for (_n, _wt), (_k, _s) in sorted(ENUM_CASES.items(), key=lambda x: (x[0][0], x[0][1].name)):
    _f = _mk_enum(_n, _wt, _k, _s)
    globals()[_f.__name__] = _f
for (_n, _wt), (_k, _s) in sorted(FLAG_CASES.items(), key=lambda x: (x[0][0], x[0][1].name)):
    _f = _mk_flag(_n, _wt, _k, _s)
    globals()[_f.__name__] = _f
del _f


# ------------------------------------------------------------------------------------------------ adapter serializers
@harness(pre=["(0 <= raw) & (raw <= 255)", "0 <= pc <= 4"], post="_", timeout=300, covers=COVERS,
         note="ObjectUpdate/ObjectAdd State: every raw byte x sibling PCode in {primitive, avatar, grass, tree, other}: "
              "decode-then-encode is the identity in object and plain-data form")
def object_state(raw: int, pc: int, pod: bool) -> bool:
    ser = REG[("ObjectUpdate", "ObjectData", "State")]
    pcode = [tmpls.PCode.PRIMITIVE, tmpls.PCode.AVATAR, tmpls.PCode.GRASS, tmpls.PCode.TREE, 0][small(pc, 0, 4)]
    raw = small(raw, 0, 255)
    blk = Block("ObjectData", PCode=int(pcode) if pcode else 0)
    val = ser.deserialize(blk, raw, pod=pod)
    if pod and not literal_roundtrips(val):
        return False
    return ser.serialize(blk, val) == raw


XFER_VALUES = [0, 1, 2, 0x7FFFFFFF, 0x80000000, 0x80000001, 0xFFFFFFFF, 0x12345678, 0x92345678, 0x40000000, 0xC0000000]


@harness(pre=[f"0 <= sel < {len(XFER_VALUES)}"], post="_", timeout=300, covers=COVERS,
         note="SendXferPacket.XferID.Packet (31-bit packet number + EOF bit): boundary catalogue of U32 values (both EOF settings x "
              "packet numbers 0, 1, 2, 2^30, 2^31-1, mixed) survives decode-then-encode in object and plain-data form (bit "
              "operators realize their operands, so the word is solver-selected from the catalogue; C08 decides the generic "
              "bit-field arithmetic)")
def xfer_packet_id(sel: int, pod: bool) -> bool:
    ser = REG[("SendXferPacket", "XferID", "Packet")]
    raw = XFER_VALUES[small(sel, 0, len(XFER_VALUES) - 1)]
    blk = Block("XferID")
    val = ser.deserialize(blk, raw, pod=pod)
    if pod and not literal_roundtrips(val):
        return False
    return ser.serialize(blk, val) == raw


@harness(pre=[f"0 <= sel < {len(XFER_VALUES)}", f"0 <= sel2 < {len(XFER_VALUES)}", "0 <= reads <= 2"], post="_", timeout=300, covers=COVERS,
         note="block-level cache isolation: a decoded (pretty) value handed out by Block.deserialize_var is the caller's own - "
              "editing it in place (packet number replaced, EOF bit flipped) WITHOUT writing it back, on the first read or on a "
              "later (cached) read, changes neither the variable's wire value nor what the next pretty read returns: that still "
              "re-encodes to the unchanged wire value (SendXferPacket.XferID.Packet, a mutable dataclass; word and replacement "
              "solver-selected from the boundary catalogue; 1..3 reads each followed by an edit)")
def block_cache_isolation(sel: int, sel2: int, reads: int) -> bool:
    ser = REG[("SendXferPacket", "XferID", "Packet")]
    raw = XFER_VALUES[small(sel, 0, len(XFER_VALUES) - 1)]
    other = XFER_VALUES[small(sel2, 0, len(XFER_VALUES) - 1)] & 0x7FFFFFFF
    blk = Block("XferID", ID=1, Packet=raw)
    blk.message_name = "SendXferPacket"
    for _ in range(small(reads, 0, 2) + 1):
        val = blk.deserialize_var("Packet")
        if ser.serialize(blk, val) != raw:
            return False
        val.PacketID = other
        val.IsEOF = not val.IsEOF
    return blk["Packet"] == raw and ser.serialize(blk, blk.deserialize_var("Packet")) == raw


_REAL_DATETIME = tmpls.datetime
DATE_KEYS = [("ObjectProperties", "ObjectData", "CreationDate"), ("ParcelProperties", "ParcelData", "ClaimDate"),
             ("MeanCollisionAlert", "MeanCollision", "Time")]
# seconds: epoch, 1 s, end of first day, 2001, 2023, 2038 boundary, U32 max, US DST gap edge / fold hour (both occurrences)
DATE_SECONDS = [0, 1, 86399, 1_000_000_000, 1_700_000_000, 2**31 - 1, 2**31, 2**32 - 1, 1678615199, 1678615200, 1699173000,
                1699176600, 253402300799]
# microsecond values a float round trip is known to corrupt, and sub-second boundaries
DATE_MICROS = [1098554253192844, 1100666489785940, 556862557883439, 277522989513357, 999_999, 1_000_001,
               1_699_176_600_999_999]
ZONES = ["UTC", "America/Los_Angeles", "Europe/London"]


def _set_zone(name):
    import os
    import time
    os.environ["TZ"] = name
    time.tzset()


def date_values(key):
    wt = wire_type(key)
    lo, hi = RANGES[wt]
    vals = [v for v in DATE_SECONDS if lo <= v <= hi]
    if lo < 0:
        vals += [-1, lo]
    if key[2] == "CreationDate":
        vals = [v * 1_000_000 for v in vals] + DATE_MICROS
    return vals


_DATE_VALS = [date_values(k) for k in DATE_KEYS]


@harness(pre=["0 <= which <= 2", "0 <= sel <= 20", "0 <= zi <= 2"], post="_", timeout=300, covers=COVERS,
         note="date serializers (CreationDate in microseconds, ClaimDate, MeanCollision.Time) on a catalogue of instants (epoch, "
              "2001, 2023, 2038 boundary, type maximum, negative values for the signed field, US/UK DST gap edges and both "
              "occurrences of the repeated hour, year 9999, microsecond values that a float round trip corrupts) x process "
              "time zones UTC / America/Los_Angeles / Europe/London: decode-then-encode is the identity in both forms and the "
              "plain-data form evaluates back from its repr (datetime is C: values realized, decided for the catalogue)")
def date_catalogue(which: int, sel: int, zi: int, pod: bool) -> bool:
    w = small(which, 0, 2)
    key = DATE_KEYS[w]
    vals = _DATE_VALS[w]
    sel = small(sel, 0, 20)
    if sel >= len(vals):
        return True
    raw = vals[sel]
    _set_zone(ZONES[small(zi, 0, 2)])
    try:
        ser = REG[key]
        blk = Block(key[1])
        val = ser.deserialize(blk, raw, pod=pod)
        if pod and not literal_roundtrips(val):
            return False
        return ser.serialize(blk, val) == raw
    finally:
        _set_zone("UTC")


def kf_dst_fold(which, sel, zi) -> bool:
    """known finding: the instant falls into the repeated local hour at the end of DST (datetime.fold == 1) in that zone"""
    vals = _DATE_VALS[which]
    if zi == 0 or sel >= len(vals):
        return False
    secs = vals[sel] // (1_000_000 if DATE_KEYS[which][2] == "CreationDate" else 1)
    _set_zone(ZONES[zi])
    try:
        return _REAL_DATETIME.datetime.fromtimestamp(secs).fold == 1
    except (ValueError, OverflowError, OSError):
        return False
    finally:
        _set_zone("UTC")


class StubGap(Exception):
    pass


class ZInt:
    """an integer-valued z3 term; the adapter's own arithmetic runs on it by operator overloading (straight-line code).
    Python's // and % with a positive constant divisor are z3's div / mod."""

    def __init__(self, z):
        self.z = z

    @staticmethod
    def lift(x):
        import z3
        if isinstance(x, ZInt):
            return x.z
        if type(x) is int:
            return z3.IntVal(x)
        raise StubGap(f"non-integer operand {type(x).__name__}")

    def __add__(self, o):
        return ZInt(self.z + ZInt.lift(o))
    __radd__ = __add__

    def __sub__(self, o):
        return ZInt(self.z - ZInt.lift(o))

    def __rsub__(self, o):
        return ZInt(ZInt.lift(o) - self.z)

    def __mul__(self, o):
        return ZInt(self.z * ZInt.lift(o))
    __rmul__ = __mul__

    def _posconst(self, o):
        if type(o) is not int or o <= 0:
            raise StubGap("division by a non-constant or non-positive divisor")
        return o

    def __floordiv__(self, o):
        return ZInt(self.z / self._posconst(o))

    def __mod__(self, o):
        return ZInt(self.z % self._posconst(o))

    def __divmod__(self, o):
        return self // o, self % o

    def __truediv__(self, o):
        raise StubGap("float division")

    def __float__(self):
        raise StubGap("float conversion")

    def __bool__(self):
        raise StubGap("branch on a symbolic value")
    __eq__ = __lt__ = __le__ = __gt__ = __ge__ = lambda self, o: (_ for _ in ()).throw(StubGap("comparison"))
    __hash__ = None


class _SDate:
    """stand-in for a naive datetime in a zone without DST (UTC): whole seconds since the epoch + microseconds"""

    def __init__(self, secs, us):
        self.secs, self.microsecond = secs, us

    def __add__(self, other):
        if not isinstance(other, _STimedelta):
            raise StubGap("datetime + non-timedelta")
        total = self.microsecond + other.us
        return _SDate(self.secs + total // 1_000_000, total % 1_000_000)

    def isoformat(self):
        return self

    def replace(self, microsecond):
        return _SDate(self.secs, microsecond)

    def timestamp(self):
        if type(self.microsecond) is not int or self.microsecond != 0:
            raise StubGap("fractional float timestamp")
        return self.secs             # whole seconds: the float is integer-valued and exact below 2^53

    def __getattr__(self, name):
        raise StubGap(f"datetime.{name}")


class _STimedelta:
    def __init__(self, *a, microseconds=0, **kw):
        if a or kw:
            raise StubGap("timedelta arguments")
        self.us = microseconds


class _SDatetimeClass:
    @staticmethod
    def fromtimestamp(t, *a):
        if a or not isinstance(t, (ZInt, int)):
            raise StubGap("fromtimestamp of a non-integer")
        return _SDate(t, 0)

    @staticmethod
    def fromisoformat(x):
        if not isinstance(x, _SDate):
            raise StubGap("fromisoformat")
        return x

    def __getattr__(self, name):
        raise StubGap(f"datetime.datetime.{name}")


class _SDatetimeModule:
    datetime = _SDatetimeClass()
    timedelta = _STimedelta

    def __getattr__(self, name):
        raise StubGap(f"datetime.{name}")


def _zint_int(x, *a):
    import builtins
    return x if isinstance(x, ZInt) and not a else builtins.int(x, *a)


def date_arith_z3(which: int, timeout: int = 120, exclude=()):
    """Engine B (lite): run the live DateAdapter.decode / .encode on a z3 integer term (operator overloading; the C datetime
    type replaced by its contract on (whole seconds, microseconds) in a zone without DST) and ask z3 whether any raw value
    of the variable's wire range up to year 9999 fails to come back."""
    import inspect
    import time
    import z3
    key = DATE_KEYS[which]
    ser = REG[key]
    lo, hi = RANGES[wire_type(key)]
    top = 253402300799 * (1_000_000 if key[2] == "CreationDate" else 1) + (999_999 if key[2] == "CreationDate" else 0)
    hi = min(hi, top)
    raw = z3.Int("raw")
    blk = Block(key[1])
    tmpls.datetime = _SDatetimeModule()
    tmpls.int = _zint_int
    enc = [f"{type(ser.ADAPTER).__module__}:{type(ser.ADAPTER).__qualname__}.decode",
           f"{type(ser.ADAPTER).__module__}:{type(ser.ADAPTER).__qualname__}.encode"]
    try:
        back = ser.serialize(blk, ser.deserialize(blk, ZInt(raw), pod=False))
    except StubGap as e:
        return {"status": "unknown", "detail": f"the adapter uses an operation this integer encoding does not model ({e}); "
                                               "decided on the catalogue only (date_catalogue)", "queries": 0, "encoded": enc}
    finally:
        tmpls.datetime = _REAL_DATETIME
        del tmpls.int
    if not isinstance(back, ZInt):
        return {"status": "unknown", "detail": f"encode returned a {type(back).__name__}, not an integer term", "queries": 0}
    # translator validation: the term evaluates to what the real code returns on concrete points (UTC)
    _set_zone("UTC")
    pts = [v for v in _DATE_VALS[which] if lo <= v <= hi][:64] + [lo, hi, (lo + hi) // 2]
    for v in pts:
        real = ser.serialize(blk, ser.deserialize(blk, v, pod=False))
        model = z3.simplify(z3.substitute(back.z, (raw, z3.IntVal(v)))).as_long()
        if real != model:
            return {"status": "error", "error": f"encoding disagrees with the real code at raw={v}: {model} vs {real}"}
    s = z3.Solver()
    s.set("timeout", timeout * 1000)
    s.add(raw >= lo, raw <= hi, back.z != raw)
    t0 = time.time()
    r = str(s.check())
    dt = round(time.time() - t0, 3)
    out = {"queries": 1, "solver_s": dt, "encoded": enc, "validated_points": len(pts),
           "bounds": f"raw in [{lo}, {hi}] (wire range capped at year 9999), process time zone without DST",
           "source_sha": __import__("hashlib").sha256(inspect.getsource(type(ser.ADAPTER)).encode()).hexdigest()[:16]}
    if r == "unsat":
        out["status"] = "proved"
    elif r == "sat":
        v = s.model()[raw].as_long()
        out.update(status="refuted", counterexample={"which": which, "raw": v}, replay_func="replay_date")
    else:
        out.update(status="unknown", detail=f"z3: {r} ({s.reason_unknown()})")
    return out


def replay_date(cex):
    key = DATE_KEYS[cex["which"]]
    ser, blk = REG[key], Block(key[1])
    _set_zone("UTC")
    try:
        back = ser.serialize(blk, ser.deserialize(blk, cex["raw"], pod=False))
    except Exception as e:  # noqa
        return True, f"raw {cex['raw']} raised {e!r}"
    return back != cex["raw"], f"raw {cex['raw']} -> {back}"


# ------------------------------------------------------------------------------------------------ byte payloads
import dataclasses  # noqa: E402
import enum  # noqa: E402
import inspect  # noqa: E402
import numpy as np  # noqa: E402

for _n, _c in inspect.getmembers(tmpls, inspect.isclass):        # enum.Flag pseudo-member cache (determinism)
    if issubclass(_c, enum.IntFlag) and _c.__module__ == tmpls.__name__:
        for _v in range(256):
            try:
                _c(_v)
            except Exception:  # noqa
                pass

PAYLOAD_KEYS = [k for k, s in REG.items() if wire_type(k) in (MsgType.MVT_VARIABLE, MsgType.MVT_FIXED)]
_PSEEN = {}
for _k in PAYLOAD_KEYS:
    _PSEEN.setdefault(getattr(REG[_k], "__name__", type(REG[_k]).__name__), _k)


def same(a, b) -> bool:
    a, b = force(a), force(b)
    if dataclasses.is_dataclass(a) and dataclasses.is_dataclass(b) and not isinstance(a, type):
        return type(a) is type(b) and all(same(getattr(a, f.name), getattr(b, f.name)) for f in dataclasses.fields(a))
    if isinstance(a, dict) and isinstance(b, dict):
        return list(a.keys()) == list(b.keys()) and all(same(a[k], b[k]) for k in a)
    if isinstance(a, (list, tuple)) and isinstance(b, (list, tuple)):
        return len(a) == len(b) and all(same(x, y) for x, y in zip(a, b))
    if isinstance(a, float) and isinstance(b, float):
        return a == b or (a != a and b != b)
    if hasattr(a, "data") and hasattr(b, "data") and type(a) is type(b) and callable(getattr(a, "data")):
        return same(tuple(a.data()), tuple(b.data()))        # vectors / quaternions: element-wise (NaN equals NaN)
    if isinstance(a, (bytes, bytearray, memoryview)) and isinstance(b, (bytes, bytearray, memoryview)):
        return bytes(a) == bytes(b)
    if isinstance(a, np.ndarray) or isinstance(b, np.ndarray):
        return bool(np.array_equal(a, b))
    return a == b


def deep_force(v):
    """evaluate every lazily-decoded part (a lazy part that fails to decode means the payload is not accepted)"""
    v = force(v)
    if dataclasses.is_dataclass(v) and not isinstance(v, type):
        for f in dataclasses.fields(v):
            deep_force(getattr(v, f.name))
    elif isinstance(v, dict):
        for x in v.values():
            deep_force(x)
    elif isinstance(v, (list, tuple)):
        for x in v:
            deep_force(x)
    return v


def contexts_of(ser):
    if isinstance(ser, type) and issubclass(ser, se.EnumSwitchedSubfieldSerializer):
        return [{ser.ENUM_FIELD: int(k)} for k in ser.TEMPLATES]
    if isinstance(ser, type) and issubclass(ser, se.FlagSwitchedSubfieldSerializer):
        allbits = 0
        for k in ser.TEMPLATES:
            allbits |= int(k)
        return [{ser.FLAG_FIELD: v} for v in range(allbits + 1) if v & allbits == v]
    if getattr(ser, "__name__", "") == "TransferInfoSerializer":
        return [{"TargetType": int(t)} for t in tmpls.TransferTargetType]
    return [{}]


def accepts(ser, key, ctx, payload, pod=False):
    blk = Block(key[1], **ctx)
    blk.message_name = key[0]
    try:
        v = deep_force(ser.deserialize(blk, payload, pod=pod))
    except Exception:  # noqa
        return False
    return v is not se.UNSERIALIZABLE


def crafted_payloads(cname, ser, key):
    """payloads with real structure that fill patterns cannot reach, produced by the serializer itself from plain data"""
    out = []
    blk = Block(key[1])
    try:
        if cname in ("TextureEntrySubfieldSerializer", "DPTextureEntrySubfieldSerializer"):
            base = bytes(64) if cname.startswith("Texture") else None
            if base is not None:
                pod = ser.deserialize(blk, base, pod=True)
                pod["Textures"][(0, 2)] = "11111111-2222-3333-4444-555555555555"
                pod["Color"][(1,)] = b"\x01\x02\x03\x04"
                pod["Glow"][(7, 33)] = 0.5
                pod["Rotation"][(3,)] = 1.5
                out.append(bytes(ser.serialize(blk, pod)))
                # per-face exceptions whose value EQUALS the default are legal on the wire and must survive as written
                pod2 = ser.deserialize(blk, base, pod=True)
                pod2["Textures"][(3,)] = pod2["Textures"][None]
                pod2["Glow"][(5,)] = pod2["Glow"][None]
                pod2["Color"][(0, 1)] = pod2["Color"][None]
                out.append(bytes(ser.serialize(blk, pod2)))
        elif cname == "ObjectUpdateExtraParamsSerializer":
            out.append(b"\x02" + b"\x10\x00" + (16).to_bytes(4, "little") + bytes(range(16))
                       + b"\x30\x00" + (17).to_bytes(4, "little") + bytes(range(17)))
        elif cname == "NameValueSerializer":
            out.append(b"Title STRING RW SV Hello\nAttachItemID STRING RW SV 12\x00")
    except Exception:  # noqa
        pass
    return out


def base_payloads(cname, ser, key):
    """(ctx, payload) pairs the serializer accepts: for every context value that selects a sub-template, the first two
    accepted non-empty fill patterns (0x00.. twice, 0xff.., 0x80.., lengths <= 200), plus crafted payloads"""
    out = []
    for ctx in contexts_of(ser):
        for fill in (0, 0xFF, 0x80):
            found = 0
            for n in range(1, 201):
                p = bytes([fill]) * n
                if accepts(ser, key, ctx, p):
                    out.append((ctx, p))
                    found += 1
                    if found == (2 if fill == 0 else 1):
                        break
        for p in crafted_payloads(cname, ser, key):
            if accepts(ser, key, ctx, p):
                out.append((ctx, p))
    dedup = []
    for c, p in out:
        if (c, p) not in dedup:
            dedup.append((c, p))
    return dedup


def _untraced(fn):
    import sys
    if "crosshair.tracers" in sys.modules:
        from crosshair.tracers import NoTracing, is_tracing
        if is_tracing():
            with NoTracing():
                return fn()
    return fn()


def fixed_point(ser, key, ctx, payload, pod) -> bool:
    blk = Block(key[1], **ctx)
    blk.message_name = key[0]
    try:
        v1 = deep_force(ser.deserialize(blk, payload, pod=pod))
    except Exception:
        return True          # not a payload this serializer accepts
    if v1 is se.UNSERIALIZABLE:
        return True
    if pod and not literal_roundtrips(v1):
        return False
    p2 = ser.serialize(blk, v1)
    v2 = deep_force(ser.deserialize(blk, p2, pod=pod))
    return same(v2, v1) and bytes(ser.serialize(blk, v2)) == bytes(p2)


MUT_VALUES = [0x00, 0x01, 0x7F, 0x80, 0xFF]
# serializers whose bit operators / text decoding realize each byte: 256 paths per byte, so the quick bound is one byte
TINY_LEN = {'NameValueSerializer': 1, 'ParcelOverlaySerializer': 1, 'ParcelPropertiesBitmapSerializer': 1}
_BASES = {}


def _has_min_rotation(cname, bi, pos, v) -> bool:
    key = _PSEEN[cname]
    ctx, base = _BASES[cname][bi]
    if pos >= len(base):
        return False
    blk = Block(key[1], **ctx)
    try:
        val = deep_force(REG[key].deserialize(blk, base[:pos] + bytes([v]) + base[pos + 1:], pod=True))
    except Exception:
        return False
    rot = val.get("Rotation") if isinstance(val, dict) else None
    return isinstance(rot, dict) and any(x == -6.283185307179586 for x in rot.values())


_KF_CACHE = {}


def kf_min_rotation(cname, bi, pos, v) -> bool:
    """known finding C10/C09: a texture-entry rotation whose raw wire value is -32768 (bytes 00 80) decodes to -2*pi, which
    re-encodes as 0 (asserted as intended by the repo's own tests).  True iff the mutated payload contains such a rotation;
    the (base, position, byte) triples are found by really decoding every candidate (byte 0x00 / 0x80) once, concretely."""
    if cname not in _KF_CACHE:
        import sys
        def compute():
            return sorted((b, p, vv) for b in range(len(_BASES[cname])) for p in range(len(_BASES[cname][b][1]))
                          for vv in (0x00, 0x80) if _has_min_rotation(cname, b, p, vv))
        if "crosshair.tracers" in sys.modules:
            from crosshair.tracers import NoTracing
            with NoTracing():
                _KF_CACHE[cname] = compute()
        else:
            _KF_CACHE[cname] = compute()
    for b, p, vv in _KF_CACHE[cname]:
        if (bi == b) & (pos == p) & (v == vv):
            return True
    return False


def _mk_payload(cname, key):
    ser = REG[key]
    ctxs = contexts_of(ser)
    bases = base_payloads(cname, ser, key)
    _BASES[cname] = bases
    made = []

    def tiny(payload: bytes, ci: int, pod: bool) -> bool:
        return fixed_point(ser, key, ctxs[small(ci, 0, len(ctxs) - 1)], payload, pod)
    tiny.__name__ = tiny.__qualname__ = f"payload_tiny_{ident(cname)}"
    tl = TINY_LEN.get(cname, 2)
    tnote = (f"byte-payload serializer {cname} ({'.'.join(key)}): ANY payload of <= %d bytes that it accepts (all "
             f"{len(ctxs)} sibling-context values that select a sub-template) reaches after one decode/encode "
             "pass a fixed point that decodes to an equal value, in object and plain-data form (whose repr evaluates back)")
    made.append(harness(pre=[f"len(payload) <= {tl}", f"0 <= ci < {len(ctxs)}"], post="_", timeout=150, tiers=("quick",),
                        covers=COVERS, note=tnote % tl)(tiny))

    def tiny3(payload: bytes, ci: int, pod: bool) -> bool:
        return fixed_point(ser, key, ctxs[small(ci, 0, len(ctxs) - 1)], payload, pod)
    tiny3.__name__ = tiny3.__qualname__ = f"payload_tiny3_{ident(cname)}"
    made.append(harness(pre=["len(payload) <= 3", f"0 <= ci < {len(ctxs)}"], post="_", timeout=900, tiers=("thorough",),
                        covers=COVERS, note=tnote % 3)(tiny3))
    if not bases:
        return made
    maxlen = max(len(p) for _, p in bases)

    def mut(bi: int, pos: int, vi: int, pod: bool) -> bool:
        ctx, base = bases[small(bi, 0, len(bases) - 1)]
        pos = small(pos, 0, maxlen - 1)
        if pos >= len(base):
            return True
        v = MUT_VALUES[small(vi, 0, len(MUT_VALUES) - 1)]
        pod = True if pod else False
        # every selector is concrete now: the serializer runs on the chosen payload outside the tracer
        return _untraced(lambda: fixed_point(ser, key, ctx, base[:pos] + bytes([v]) + base[pos + 1:], pod))
    mut.__name__ = mut.__qualname__ = f"payload_mut_{ident(cname)}"
    made.append(harness(pre=[f"0 <= bi < {len(bases)}", f"0 <= pos < {maxlen}", f"0 <= vi < {len(MUT_VALUES)}"], post="_",
                        timeout=500, covers=COVERS,
                        note=f"{cname}: {len(bases)} accepted base payloads (fill patterns per context value + crafted; up to "
                             f"{maxlen} bytes) with ANY one byte position replaced by 0x00/0x01/0x7f/0x80/0xff: if still "
                             "accepted, one decode/encode pass reaches a fixed point decoding to an equal value (both forms)")(mut))

    def mutfull(bi: int, pos: int, v: int, pod: bool) -> bool:
        ctx, base = bases[small(bi, 0, len(bases) - 1)]
        pos = small(pos, 0, maxlen - 1)
        if pos >= len(base):
            return True
        return fixed_point(ser, key, ctx, base[:pos] + bytes([v]) + base[pos + 1:], pod)
    mutfull.__name__ = mutfull.__qualname__ = f"payload_mutfull_{ident(cname)}"
    made.append(harness(pre=[f"0 <= bi < {len(bases)}", f"0 <= pos < {maxlen}", "(0 <= v) & (v <= 255)"], post="_",
                        timeout=250, thorough_timeout=1200, tiers=("thorough",), covers=COVERS,
                        note=f"{cname}: as payload_mut but the replacement byte is fully symbolic (thorough only)")(mutfull))
    return made


for _cn, _k in sorted(_PSEEN.items()):
    for _f in _mk_payload(_cn, _k):
        globals()[_f.__name__] = _f
del _f


@harness(pre=["(0 <= a) & (a <= 255)", "0 <= bi <= 3"], post="_", timeout=200, covers=COVERS,
         note="block-level cache: after a pretty value was read (and cached) for a variable, assigning a different raw value "
              "invalidates the cache, so the next pretty read reflects the new raw value (every first byte x second value in "
              "{0, 1, 255, first+16})")
def block_cache_invalidation(a: int, bi: int) -> bool:
    a = small(a, 0, 255)
    b = [0, 1, 255, (a + 16) % 256][small(bi, 0, 3)]
    blk = Block("ObjectData", PCode=int(tmpls.PCode.PRIMITIVE), State=a)
    blk.message_name = "ObjectUpdate"
    first = blk.deserialize_var("State")
    blk["State"] = b
    second = blk.deserialize_var("State")
    ser = REG[("ObjectUpdate", "ObjectData", "State")]
    return ser.serialize(blk, second) == b and (a == b or ser.serialize(blk, first) == a)


def _face_wire_model(faces):
    """independent model of the texture-entry face bitfield: big-endian base-128 groups, 0x80 = more follows, no leading
    zero group"""
    packed = sum(1 << f for f in faces)
    groups = []
    while packed:
        groups.append(packed % 128)
        packed //= 128
    groups.reverse()
    return bytes((g + 128) if i < len(groups) - 1 else g for i, g in enumerate(groups))


@harness(pre=["0 <= f <= 69", "0 <= g <= 69", "0 <= h <= 2"], post="_", timeout=900,
         note="texture-entry face bitfield (TEFaceBitfield, the exception-list key of every TextureEntry field): for ANY face "
              "set {f}, {f, g} or {f, g, g+h+1} with faces 0..72 - i.e. beyond the 45 faces the viewer uses, which the wire format "
              "allows (1..11 byte bitfields) - the wire form equals an independent base-128 model, decodes back to exactly that "
              "face tuple, and the decoded tuple re-encodes to the same bytes, reading exactly the bitfield's bytes",
         covers=("hippolyzer.lib.base.templates:TEFaceBitfield.deserialize", "hippolyzer.lib.base.templates:TEFaceBitfield.serialize"))
def te_face_bitfield(f: int, g: int, h: int) -> bool:
    f, g, h = small(f, 0, 69), small(g, 0, 69), small(h, 0, 2)
    faces = tuple(sorted({f, g} | ({g + h + 1} if h else set())))
    w = se.BufferWriter("<")
    tmpls.TEFaceBitfield.serialize(faces, w)
    data = w.copy_buffer()
    if data != _face_wire_model(faces):
        return False
    r = se.BufferReader("<", data + b"\x55")
    back = tmpls.TEFaceBitfield.deserialize(r)
    if back != faces or len(r) != 1:
        return False
    w2 = se.BufferWriter("<")
    tmpls.TEFaceBitfield.serialize(back, w2)
    return w2.copy_buffer() == data


from vlib.harness import shard as _shard  # noqa: E402
_shard(te_face_bitfield, "h", range(3), ["pairs", "triples_adjacent", "triples_gap"], globals())


def obligations(tier, seed):
    from vlib.main import default_obligations, Ob
    obs = default_obligations("harness.c09", tier)
    for w, key in enumerate(DATE_KEYS):
        obs.append(Ob(name=f"date_arith_z3__{key[2]}", module="harness.c09", func="date_arith_z3", kind="call", timeout=120,
                      covers=("hippolyzer.lib.base.templates:DateAdapter.decode", "hippolyzer.lib.base.templates:DateAdapter.encode"),
                      note=f"{'.'.join(key)}: the live DateAdapter code executed on a z3 integer term (C datetime replaced by its "
                           "contract on (seconds, microseconds) in a zone without DST): one query over EVERY raw value from the "
                           "wire minimum up to year 9999; translation validated on concrete points against the real code",
                      args={"which": w, "timeout": 120}))
    return obs


EVIDENCE = {
    "bounds": "enum serializers: full wire range of the variable; flag serializers: 0 / every single bit / all ones / type min and "
              "max / -1, -2 for signed fields; object state: 256 raw values x 5 PCode contexts; xfer packet id: 11 boundary words; "
              "dates: boundary catalogue (incl. DST edges, year 9999, float-hostile microsecond values) x 3 process time zones, and "
              "one z3 query per date field over the whole wire range up to year 9999 (integer arithmetic, zone without DST); byte "
              "payloads: ANY payload <= 2 bytes (1 byte where every byte value forks) and every single-byte substitution "
              "(0x00/0x01/0x7f/0x80/0xff; any byte in thorough) of the accepted base payloads (fill patterns per sub-template "
              "context + crafted texture entries / extra params / name-values)",
    "outside": "flag words other than the catalogue values (bit operators realize their operands; C08 decides the generic "
               "arithmetic); payloads that are neither tiny nor one byte away from a base payload; non-finite floats in the "
               "plain-data literal check (the property speaks of finite numbers); time zones other than UTC / Los Angeles / London",
    "assumptions": ["the C datetime type obeys its documented contract on (whole seconds, microseconds) in a zone without DST "
                    "(used only by date_arith_z3__*; the catalogue obligation runs the real datetime)",
                    "lazy_object_proxy replaced by a Python proxy with the same contract"],
}
