"""Shared HTTP-side fixture: the real MITMProxyEventManager on the shared proxy stack (harness.proxyfix) with plain
in-process queues standing in for the multiprocessing queues, and helpers to build real mitmproxy flows."""
import queue

from mitmproxy.test import tflow, tutils
from mitmproxy.http import HTTPFlow

from harness import proxyfix as px
from hippolyzer.lib.base import llsd
from hippolyzer.lib.proxy.http_event_manager import MITMProxyEventManager
from hippolyzer.lib.proxy.http_flow import HippoHTTPFlow
from hippolyzer.lib.proxy.caps import SerializedCapData


import llsd.base as _llsd_base  # noqa: E402
from vlib.adapt import untraced_constructor  # noqa: E402
untraced_constructor(_llsd_base.LLSDBaseFormatter)


class Q(queue.Queue):
    """queue.Queue with the non-blocking get(False) signature the event manager uses; weak-referenceable"""
    pass


class FlowCtx:
    def __init__(self):
        self.from_proxy_queue = Q()
        self.to_proxy_queue = Q()

        class _Sig:
            def is_set(self):
                return False
        self.shutdown_signal = _Sig()


def fresh_http():
    """new queues + event manager on the shared session manager"""
    ctx = FlowCtx()
    px.SM.flow_context = ctx
    mgr = MITMProxyEventManager(px.SM, ctx)
    return ctx, mgr


def make_flow(url_host="sim.example", path="/", content=b"", resp_content=None, status=200, method="POST", scheme="https",
              port=None):
    req = tutils.treq(host=url_host, port=port or (443 if scheme == "https" else 80), path=path.encode(), content=content,
                      method=method.encode(), scheme=scheme.encode(), authority=url_host.encode())
    req.headers["Host"] = url_host
    resp = None
    if resp_content is not None:
        resp = tutils.tresp(content=resp_content, status_code=status)
    f = tflow.tflow(req=req, resp=resp if resp is not None else False)
    f.metadata["cap_data_ser"] = SerializedCapData()
    return f


def pump(mgr, ctx, event_type, mitm_flow):
    """one event through the real pump_proxy_event (the coroutine never awaits when the queue is non-empty)"""
    ctx.from_proxy_queue.put((event_type, mitm_flow.get_state()))
    coro = mgr.pump_proxy_event()
    try:
        coro.send(None)
    except StopIteration:
        pass
    finally:
        coro.close()


def drain(q):
    out = []
    while True:
        try:
            out.append(q.get(False))
        except queue.Empty:
            return out


def xml(obj) -> bytes:
    return llsd.format_xml(obj)
