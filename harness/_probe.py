from vlib.harness import harness
import hippolyzer.lib.base.serialization as se
from vlib.adapt import coerce_bool_dunders
coerce_bool_dunders(se)
from harness.c08 import roundtrip, same
BT = se.BytesTerminated((b"\x00",))
@harness(pre=["len(s) <= 2", "0 not in s"], post="_")
def p1(s: bytes, big: bool, pod: bool) -> bool:
    return roundtrip(BT, s, big, pod, b"")

@harness(pre=["len(s) <= 2", "all(x != 0 for x in s)"], post="_")
def p2(s: bytes, big: bool, pod: bool) -> bool:
    return roundtrip(BT, s, big, pod, b"")

@harness(pre=["len(s) <= 2", "all(x != 0 for x in s)"], post="_")
def p3(s: bytes) -> bool:
    w = se.BufferWriter("<")
    w.write(BT, s)
    data = w.copy_buffer()
    r = se.BufferReader("<", data)
    got = r.read(BT)
    return bytes(got) == s
