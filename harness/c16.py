"""C16 — capability URLs are attributed to the right cap, region and session.

Engine A: all operation histories up to a depth bound (seed grants with overlapping names / prefix-related URLs,
temporary / wrapper / proxy-only registrations on two regions) followed by lookups, through the real ProxiedRegion /
Session / SessionManager cap bookkeeping and the real Seed request/response rewriting, compared with a reference
model.  Names and URLs are catalogue constants picked by symbolic selectors (urlsplit / sha256 / LLSD-XML are C code).
"""
from vlib.harness import harness, shard
from harness import proxyfix as px
from harness import httpfix as hx
from harness.proxyfix import small
from hippolyzer.lib.base import llsd
from hippolyzer.lib.proxy.caps import CapType

_P = "hippolyzer.lib.proxy."
COVERS = (_P + "region:CapsMultiDict.add", _P + "region:ProxiedRegion.update_caps", _P + "region:ProxiedRegion._recalc_caps",
          _P + "region:ProxiedRegion.register_cap", _P + "region:ProxiedRegion.resolve_cap",
          _P + "region:ProxiedRegion.register_wrapper_cap", _P + "region:ProxiedRegion.register_proxy_cap",
          _P + "sessions:Session.resolve_cap", "hippolyzer.lib.client.state:BaseClientSessionManager.resolve_cap",
          _P + "http_event_manager:MITMProxyEventManager._handle_request",
          _P + "http_event_manager:MITMProxyEventManager._handle_response")

NAMES = ["Foo", "Bar", "GetTexture", "MyProxyCap"]
URLS = ["https://sim.example/cap/a", "https://sim.example/cap/ab", "https://sim.example/cap/a/b", "https://other.example/x",
        "https://sim.example/cap/zz"]
REGION_B = px.SESSION.register_region(circuit_addr=("127.0.0.1", 7), seed_url="https://test.localhost:4/seedb", handle=789)
REGIONS = [px.REGION, REGION_B]

# operation kinds
O_GRANT, O_TEMP, O_PROXY, O_WRAP = range(4)
NO = 4


def reset_caps():
    px.reset(())
    for r, seed in ((px.REGION, "https://test.localhost:4/foo"), (REGION_B, "https://test.localhost:4/seedb")):
        r.caps.clear()
        r.caps["Seed"] = (CapType.NORMAL, seed)
        r._recalc_caps()


class Model:
    def __init__(self):
        # per region: list of (name, type, url), most recent first
        self.caps = [[("Seed", CapType.NORMAL, "https://test.localhost:4/foo")],
                     [("Seed", CapType.NORMAL, "https://test.localhost:4/seedb")]]


def apply_op(m: Model, op, ri, ni, ui):
    """apply to the real region and the model; returns False on disagreement"""
    region = REGIONS[ri]
    name, url = NAMES[ni], URLS[ui]
    if op == O_GRANT:
        region.update_caps({name: url})
        m.caps[ri].insert(0, (name, CapType.NORMAL, url))
    elif op == O_TEMP:
        region.register_cap(name + "Uploader", url, CapType.TEMPORARY)
        m.caps[ri].insert(0, (name + "Uploader", CapType.TEMPORARY, url))
    elif op == O_PROXY:
        u1 = region.register_proxy_cap(name)
        u2 = region.register_proxy_cap(name)
        if u1 != u2:
            return False                         # registering a proxy-only cap twice yields the same URL
        existing = [c for c in m.caps[ri] if c[0] == name]
        if existing and existing[0][1] == CapType.PROXY_ONLY:
            if u1 != existing[0][2]:
                return False
        else:
            m.caps[ri].insert(0, (name, CapType.PROXY_ONLY, u1))
    else:
        if not any(c[0] == name for c in m.caps[ri]):
            return True                          # nothing to wrap: not applicable
        w = region.register_wrapper_cap(name)
        if not w.startswith("http://" + name.lower() + "-") or ".hippo-proxy.localhost" not in w:
            return False
        m.caps[ri].insert(0, (name + "ProxyWrapper", CapType.WRAPPER, w))
    return True


def prefix_related(u, v) -> bool:
    return u.startswith(v) or v.startswith(u)


def check_lookups(m: Model, suffix):
    """by-name lookups give the most recent grant; every granted URL (+suffix) resolves to a cap that really has a
    granted URL which is a prefix of the request, with the owning region and session.  A one-shot (temporary) cap that is
    returned is consumed in the model as well."""
    for ri, region in enumerate(REGIONS):
        seen = set()
        for name, ctype, url in m.caps[ri]:
            if name in seen:
                continue
            seen.add(name)
            if region.caps[name] != (ctype, url) or region.cap_urls[name] != url:
                return False
    for ri, region in enumerate(REGIONS):
        for name, ctype, url in list(m.caps[ri]):
            if ctype == CapType.TEMPORARY:
                continue
            req = url + suffix
            got = px.SM.resolve_cap(req)
            if not got:
                return False
            # acceptable answers: any granted (name, type, url, region) whose url is a prefix of the request
            hit = None
            for rj in range(2):
                for c2 in m.caps[rj]:
                    n2, t2, u2 = c2
                    if req.startswith(u2) and got.cap_name == n2 and got.base_url == u2 and got.type == t2:
                        if got.asset_server_cap and t2 != CapType.WRAPPER:
                            good = got.region is None and got.session is None
                        else:
                            good = (got.region is not None and got.region() is REGIONS[rj]
                                    and got.session is not None and got.session() is px.SESSION)
                        if good and hit is None:
                            hit = (rj, c2)
            if hit is None:
                return False
            if hit[1][1] == CapType.TEMPORARY:
                m.caps[hit[0]].remove(hit[1])
    return True


def check_temporary(m: Model):
    """a one-shot capability whose URL is not prefix-related to any other granted URL resolves exactly once"""
    allcaps = [(rj, c) for rj in range(2) for c in m.caps[rj]]
    for ri, cap in allcaps:
        name, ctype, url = cap
        if ctype != CapType.TEMPORARY:
            continue
        if any(c2 is not cap and prefix_related(url, c2[2]) for (_, c2) in allcaps):
            continue                           # prefix-ambiguous: the statement does not disambiguate
        first = px.SM.resolve_cap(url + "/upload")
        second = px.SM.resolve_cap(url + "/upload")
        if not first or first.cap_name != name or first.type != CapType.TEMPORARY or first.base_url != url:
            return False
        if not first.asset_server_cap and (first.region is None or first.region() is not REGIONS[ri]):
            return False
        if second:
            return False
    return True


_PRE = ["0 <= o0 < NO", "0 <= o1 < NO", "0 <= o2 < NO", "(0 <= r0) & (r0 <= 1) & (0 <= r1) & (r1 <= 1) & (0 <= r2) & (r2 <= 1)",
        "(0 <= n0) & (n0 <= 2) & (0 <= n1) & (n1 <= 2) & (0 <= n2) & (n2 <= 2)",
        "(0 <= u0) & (u0 <= 3) & (0 <= u1) & (u1 <= 3) & (0 <= u2) & (u2 <= 3)", "0 <= sfx <= 1", "r0 == 0"]


@harness(pre=_PRE, post="_", timeout=3000, tiers=("thorough",),
         note="all 3-operation histories over {seed grant, temporary registration, proxy-only registration (twice), wrapper "
              "registration} x 2 regions (first op on region A by symmetry) x 3 names x 4 URLs (incl. prefix-related ones) then lookups with 2 suffixes: lookup by "
              "name yields the most recent grant; every granted URL + suffix resolves to a cap whose granted URL is a prefix of "
              "the request with that cap's name/type/region/session; temporary caps resolve exactly once; a proxy-only cap "
              "registered twice keeps its URL", covers=COVERS)
def cap_histories(o0: int, r0: int, n0: int, u0: int, o1: int, r1: int, n1: int, u1: int, o2: int, r2: int, n2: int, u2: int,
                  sfx: int) -> bool:
    reset_caps()
    m = Model()
    ops = [(small(o0, 0, NO - 1), small(r0, 0, 1), small(n0, 0, 2), small(u0, 0, 3)),
           (small(o1, 0, NO - 1), small(r1, 0, 1), small(n1, 0, 2), small(u1, 0, 3)),
           (small(o2, 0, NO - 1), small(r2, 0, 1), small(n2, 0, 2), small(u2, 0, 3))]
    for op, ri, ni, ui in ops:
        if not apply_op(m, op, ri, ni, ui):
            return False
    suffix = ["", "/x?y=1"][small(sfx, 0, 1)]
    return check_lookups(m, suffix) and check_temporary(m)


_ON = ["grant", "temp", "proxy", "wrap"]


@harness(pre=["0 <= o0 < NO", "0 <= o1 < NO", "r0 == 0", "(0 <= r1) & (r1 <= 1)", "(0 <= n0) & (n0 <= 2) & (0 <= n1) & (n1 <= 2)",
              "(0 <= u0) & (u0 <= 3) & (0 <= u1) & (u1 <= 3)", "0 <= sfx <= 1"], post="_", timeout=400,
         note="all 2-operation histories (quick tier; same oracle as cap_histories)", covers=COVERS)
def cap_histories2(o0: int, r0: int, n0: int, u0: int, o1: int, r1: int, n1: int, u1: int, sfx: int) -> bool:
    reset_caps()
    m = Model()
    for op, ri, ni, ui in [(small(o0, 0, NO - 1), small(r0, 0, 1), small(n0, 0, 2), small(u0, 0, 3)),
                           (small(o1, 0, NO - 1), small(r1, 0, 1), small(n1, 0, 2), small(u1, 0, 3))]:
        if not apply_op(m, op, ri, ni, ui):
            return False
    suffix = ["", "/x?y=1"][small(sfx, 0, 1)]
    return check_lookups(m, suffix) and check_temporary(m)


for _w in shard(cap_histories2, "o0", range(NO), _ON, globals()):
    shard(_w, "o1", range(NO), _ON, globals())
for _w in shard(cap_histories, "o0", range(NO), _ON, globals()):
    for _w2 in shard(_w, "o1", range(NO), _ON, globals()):
        shard(_w2, "o2", range(NO), _ON, globals())


@harness(pre=["0 <= req_mask <= 15", "0 <= grant_mask <= 7", "0 <= pre_proxy <= 1"], post="_", timeout=300,
         note="Seed rewriting through the real request/response handlers: for every subset of requested cap names (4 names "
              "incl. one proxy-only and one asset cap) and every subset granted by the simulator: the upstream request lacks "
              "exactly the proxy-only names, the rewritten response keeps every simulator-granted cap (asset caps replaced by "
              "their wrapper URL) and adds the proxy-only URLs that were requested",
         covers=COVERS)
def seed_rewriting(req_mask: int, grant_mask: int, pre_proxy: int) -> bool:
    reset_caps()
    ctx, mgr = hx.fresh_http()
    region = px.REGION
    req_mask, grant_mask = small(req_mask, 0, 15), small(grant_mask, 0, 7)
    proxy_url = region.register_proxy_cap("MyProxyCap")
    if small(pre_proxy, 0, 1):
        if region.register_proxy_cap("MyProxyCap") != proxy_url:
            return False
    wanted = [n for i, n in enumerate(NAMES) if req_mask & (1 << i)]
    flow = hx.make_flow(url_host="test.localhost", port=4, path="/foo", content=hx.xml(wanted))
    # request leg
    hx.pump(mgr, ctx, "request", flow)
    back = hx.drain(ctx.to_proxy_queue)
    if len(back) != 1:
        return False
    state = back[0][2]
    from mitmproxy.http import HTTPFlow
    f2 = HTTPFlow.from_state(state)
    upstream = llsd.parse_xml(f2.request.content)
    if upstream != [n for n in wanted if n != "MyProxyCap"]:
        return False
    # response leg: the simulator grants a subset of the three real caps
    granted = {}
    for i, n in enumerate(NAMES[:3]):
        if grant_mask & (1 << i) and n in wanted:
            granted[n] = f"https://sim.example/granted/{n}"
    f2.response = __import__("mitmproxy.test.tutils", fromlist=["tresp"]).tresp(content=hx.xml(granted), status_code=200)
    hx.pump(mgr, ctx, "response", f2)
    back = hx.drain(ctx.to_proxy_queue)
    if len(back) != 1:
        return False
    f3 = HTTPFlow.from_state(back[0][2])
    shown = llsd.parse_xml(f3.response.content)
    for n, u in granted.items():
        if n not in shown:
            return False
        if n == "GetTexture":
            if not shown[n].startswith("http://gettexture-") or region.cap_urls.get("GetTextureProxyWrapper") != shown[n]:
                return False
        elif shown[n] != u:
            return False
        if region.cap_urls.get(n) != u:
            return False
    if ("MyProxyCap" in wanted) != ("MyProxyCap" in shown):
        return False
    if "MyProxyCap" in shown and shown["MyProxyCap"] != proxy_url:
        return False
    return set(shown) == set(granted) | ({"MyProxyCap"} if "MyProxyCap" in wanted else set())


EVIDENCE = {
    "bounds": "histories of 3 operations over 4 kinds x 2 regions x 4 names x 5 URLs + 3 request suffixes; seed rewriting over all "
              "16 request subsets x 8 grant subsets",
    "outside": "names/URLs are catalogue constants (C-level string code); two sessions (second session not modelled); longer "
               "histories",
    "assumptions": ["when several granted URLs are prefixes of a request any of them is an acceptable attribution (the "
                    "statement does not disambiguate)"],
}
