"""C16 — capability URLs are attributed to the right cap, region and session.

Engine A: all operation histories up to a depth bound (seed grants with overlapping names / prefix-related URLs,
temporary / wrapper / proxy-only registrations on two regions) followed by lookups, through the real ProxiedRegion /
Session / SessionManager cap bookkeeping and the real Seed request/response rewriting, compared with a reference
model.  Names and URLs are catalogue constants picked by symbolic selectors (urlsplit / sha256 / LLSD-XML are C code).

Besides the depth-bounded histories there are two targeted families that the depth bound does not reach:
`temporary_consumption_order` (one name holding 4 URLs, any mix of permanent and one-shot, two requests, by-name
lookup after each consumption) and `seed_adjacent_proxy_caps` (two proxy-only caps in every position/order of the Seed
request array).  In the history oracle a newly minted proxy-only URL must be unlike every URL granted so far on either
region, and a request extending it must be attributed to the very region it was registered on.
"""
from hippolyzer.lib.base.datatypes import UUID
from vlib.harness import harness, shard
from harness import proxyfix as px
from harness import httpfix as hx
from harness.proxyfix import small
from hippolyzer.lib.base import llsd
from hippolyzer.lib.proxy.caps import CapType

_P = "hippolyzer.lib.proxy."
COVERS = (_P + "region:CapsMultiDict.add", _P + "region:ProxiedRegion.update_caps", _P + "region:ProxiedRegion._recalc_caps",
          _P + "region:ProxiedRegion.register_cap", _P + "region:ProxiedRegion.resolve_cap",
          _P + "region:ProxiedRegion.register_wrapper_cap", _P + "region:ProxiedRegion.register_proxy_cap",
          _P + "sessions:Session.resolve_cap", "hippolyzer.lib.client.state:BaseClientSessionManager.resolve_cap",
          _P + "http_event_manager:MITMProxyEventManager._handle_request",
          _P + "http_event_manager:MITMProxyEventManager._handle_response")

NAMES = ["Foo", "Bar", "GetTexture", "MyProxyCap"]
URLS = ["https://sim.example/cap/a", "https://sim.example/cap/ab", "https://sim.example/cap/a/b", "https://other.example/x",
        "https://sim.example/cap/zz"]
REGION_B = px.SESSION.register_region(circuit_addr=("127.0.0.1", 7), seed_url="https://test.localhost:4/seedb", handle=789)
REGIONS = [px.REGION, REGION_B]

# operation kinds
O_GRANT, O_TEMP, O_PROXY, O_WRAP = range(4)
NO = 4


def reset_caps():
    px.reset(())
    for r, seed in ((px.REGION, "https://test.localhost:4/foo"), (REGION_B, "https://test.localhost:4/seedb")):
        r.caps.clear()
        r.caps["Seed"] = (CapType.NORMAL, seed)
        r._recalc_caps()


class Model:
    def __init__(self):
        # per region: list of (name, type, url), most recent first
        self.caps = [[("Seed", CapType.NORMAL, "https://test.localhost:4/foo")],
                     [("Seed", CapType.NORMAL, "https://test.localhost:4/seedb")]]


def apply_op(m: Model, op, ri, ni, ui):
    """apply to the real region and the model; returns False on disagreement"""
    region = REGIONS[ri]
    name, url = NAMES[ni], URLS[ui]
    if op == O_GRANT:
        region.update_caps({name: url})
        m.caps[ri].insert(0, (name, CapType.NORMAL, url))
    elif op == O_TEMP:
        region.register_cap(name + "Uploader", url, CapType.TEMPORARY)
        m.caps[ri].insert(0, (name + "Uploader", CapType.TEMPORARY, url))
    elif op == O_PROXY:
        u1 = region.register_proxy_cap(name)
        u2 = region.register_proxy_cap(name)
        if u1 != u2:
            return False                         # registering a proxy-only cap twice yields the same URL
        existing = [c for c in m.caps[ri] if c[0] == name]
        if existing and existing[0][1] == CapType.PROXY_ONLY:
            if u1 != existing[0][2]:
                return False
        else:
            if any(c[2] == u1 for rj in range(2) for c in m.caps[rj]):
                return False                     # a newly minted proxy-only URL is unlike every URL granted so far, on any region
            m.caps[ri].insert(0, (name, CapType.PROXY_ONLY, u1))
    else:
        if not any(c[0] == name for c in m.caps[ri]):
            return True                          # nothing to wrap: not applicable
        w = region.register_wrapper_cap(name)
        if not w.startswith("http://" + name.lower() + "-") or ".hippo-proxy.localhost" not in w:
            return False
        m.caps[ri].insert(0, (name + "ProxyWrapper", CapType.WRAPPER, w))
    return True


def prefix_related(u, v) -> bool:
    return u.startswith(v) or v.startswith(u)


def check_lookups(m: Model, suffix):
    """by-name lookups give the most recent grant; every granted URL (+suffix) resolves to a cap that really has a
    granted URL which is a prefix of the request, with the owning region and session.  A one-shot (temporary) cap that is
    returned is consumed in the model as well."""
    for ri, region in enumerate(REGIONS):
        seen = set()
        for name, ctype, url in m.caps[ri]:
            if name in seen:
                continue
            seen.add(name)
            if region.caps[name] != (ctype, url) or region.cap_urls[name] != url:
                return False
    for ri, region in enumerate(REGIONS):
        for name, ctype, url in list(m.caps[ri]):
            if ctype == CapType.TEMPORARY:
                continue
            req = url + suffix
            got = px.SM.resolve_cap(req)
            if not got:
                return False
            # acceptable answers: any granted (name, type, url, region) whose url is a prefix of the request
            hit = None
            for rj in range(2):
                for c2 in m.caps[rj]:
                    n2, t2, u2 = c2
                    if req.startswith(u2) and got.cap_name == n2 and got.base_url == u2 and got.type == t2:
                        if got.asset_server_cap and t2 != CapType.WRAPPER:
                            good = got.region is None and got.session is None
                        else:
                            good = (got.region is not None and got.region() is REGIONS[rj]
                                    and got.session is not None and got.session() is px.SESSION)
                        if good and hit is None:
                            hit = (rj, c2)
            if hit is None:
                return False
            if ctype == CapType.PROXY_ONLY:
                # proxy-only URLs are minted by the proxy per (region, registration): nothing else is a prefix of the request,
                # so the attribution is unambiguous — this very cap on this very region
                if got.cap_name != name or got.base_url != url or got.type != CapType.PROXY_ONLY:
                    return False
                if not got.asset_server_cap and (got.region is None or got.region() is not region
                                                 or got.session is None or got.session() is not px.SESSION):
                    return False
            if hit[1][1] == CapType.TEMPORARY:
                m.caps[hit[0]].remove(hit[1])
    return True


def check_temporary(m: Model):
    """a one-shot capability whose URL is not prefix-related to any other granted URL resolves exactly once"""
    allcaps = [(rj, c) for rj in range(2) for c in m.caps[rj]]
    for ri, cap in allcaps:
        name, ctype, url = cap
        if ctype != CapType.TEMPORARY:
            continue
        if any(c2 is not cap and prefix_related(url, c2[2]) for (_, c2) in allcaps):
            continue                           # prefix-ambiguous: the statement does not disambiguate
        first = px.SM.resolve_cap(url + "/upload")
        second = px.SM.resolve_cap(url + "/upload")
        if not first or first.cap_name != name or first.type != CapType.TEMPORARY or first.base_url != url:
            return False
        if not first.asset_server_cap and (first.region is None or first.region() is not REGIONS[ri]):
            return False
        if second:
            return False
    return True


_PRE = ["0 <= o0 < NO", "0 <= o1 < NO", "0 <= o2 < NO", "(0 <= r0) & (r0 <= 1) & (0 <= r1) & (r1 <= 1) & (0 <= r2) & (r2 <= 1)",
        "(0 <= n0) & (n0 <= 2) & (0 <= n1) & (n1 <= 2) & (0 <= n2) & (n2 <= 2)",
        "(0 <= u0) & (u0 <= 3) & (0 <= u1) & (u1 <= 3) & (0 <= u2) & (u2 <= 3)", "0 <= sfx <= 1", "r0 == 0"]


@harness(pre=_PRE, post="_", timeout=3000, tiers=("thorough",),
         note="all 3-operation histories over {seed grant, temporary registration, proxy-only registration (twice), wrapper "
              "registration} x 2 regions (first op on region A by symmetry) x 3 names x 4 URLs (incl. prefix-related ones) then lookups with 2 suffixes: lookup by "
              "name yields the most recent grant; every granted URL + suffix resolves to a cap whose granted URL is a prefix of "
              "the request with that cap's name/type/region/session; temporary caps resolve exactly once; a proxy-only cap "
              "registered twice keeps its URL, a newly minted proxy-only URL differs from every URL granted so far on either "
              "region (same name on two regions -> two URLs) and resolves to exactly its own cap and region", covers=COVERS)
def cap_histories(o0: int, r0: int, n0: int, u0: int, o1: int, r1: int, n1: int, u1: int, o2: int, r2: int, n2: int, u2: int,
                  sfx: int) -> bool:
    reset_caps()
    m = Model()
    ops = [(small(o0, 0, NO - 1), small(r0, 0, 1), small(n0, 0, 2), small(u0, 0, 3)),
           (small(o1, 0, NO - 1), small(r1, 0, 1), small(n1, 0, 2), small(u1, 0, 3)),
           (small(o2, 0, NO - 1), small(r2, 0, 1), small(n2, 0, 2), small(u2, 0, 3))]
    for op, ri, ni, ui in ops:
        if not apply_op(m, op, ri, ni, ui):
            return False
    suffix = ["", "/x?y=1"][small(sfx, 0, 1)]
    return check_lookups(m, suffix) and check_temporary(m)


_ON = ["grant", "temp", "proxy", "wrap"]


@harness(pre=["0 <= o0 < NO", "0 <= o1 < NO", "r0 == 0", "(0 <= r1) & (r1 <= 1)", "(0 <= n0) & (n0 <= 2) & (0 <= n1) & (n1 <= 2)",
              "(0 <= u0) & (u0 <= 3) & (0 <= u1) & (u1 <= 3)", "0 <= sfx <= 1"], post="_", timeout=400,
         note="all 2-operation histories (quick tier; same oracle as cap_histories, incl. proxy-only URL uniqueness across "
              "the two regions of the session and attribution of each proxy-only URL to its own region)", covers=COVERS)
def cap_histories2(o0: int, r0: int, n0: int, u0: int, o1: int, r1: int, n1: int, u1: int, sfx: int) -> bool:
    reset_caps()
    m = Model()
    for op, ri, ni, ui in [(small(o0, 0, NO - 1), small(r0, 0, 1), small(n0, 0, 2), small(u0, 0, 3)),
                           (small(o1, 0, NO - 1), small(r1, 0, 1), small(n1, 0, 2), small(u1, 0, 3))]:
        if not apply_op(m, op, ri, ni, ui):
            return False
    suffix = ["", "/x?y=1"][small(sfx, 0, 1)]
    return check_lookups(m, suffix) and check_temporary(m)


for _w in shard(cap_histories2, "o0", range(NO), _ON, globals()):
    shard(_w, "o1", range(NO), _ON, globals())
for _w in shard(cap_histories, "o0", range(NO), _ON, globals()):
    for _w2 in shard(_w, "o1", range(NO), _ON, globals()):
        shard(_w2, "o2", range(NO), _ON, globals())


@harness(pre=["0 <= req_mask <= 15", "0 <= grant_mask <= 7", "0 <= pre_proxy <= 1"], post="_", timeout=300,
         note="Seed rewriting through the real request/response handlers: for every subset of requested cap names (4 names "
              "incl. one proxy-only and one asset cap) and every subset granted by the simulator: the upstream request lacks "
              "exactly the proxy-only names, the rewritten response keeps every simulator-granted cap (asset caps replaced by "
              "their wrapper URL) and adds the proxy-only URLs that were requested",
         covers=COVERS)
def seed_rewriting(req_mask: int, grant_mask: int, pre_proxy: int) -> bool:
    reset_caps()
    ctx, mgr = hx.fresh_http()
    region = px.REGION
    req_mask, grant_mask = small(req_mask, 0, 15), small(grant_mask, 0, 7)
    proxy_url = region.register_proxy_cap("MyProxyCap")
    if small(pre_proxy, 0, 1):
        if region.register_proxy_cap("MyProxyCap") != proxy_url:
            return False
    wanted = [n for i, n in enumerate(NAMES) if req_mask & (1 << i)]
    flow = hx.make_flow(url_host="test.localhost", port=4, path="/foo", content=hx.xml(wanted))
    # request leg
    hx.pump(mgr, ctx, "request", flow)
    back = hx.drain(ctx.to_proxy_queue)
    if len(back) != 1:
        return False
    state = back[0][2]
    from mitmproxy.http import HTTPFlow
    f2 = HTTPFlow.from_state(state)
    upstream = llsd.parse_xml(f2.request.content)
    if upstream != [n for n in wanted if n != "MyProxyCap"]:
        return False
    # response leg: the simulator grants a subset of the three real caps
    granted = {}
    for i, n in enumerate(NAMES[:3]):
        if grant_mask & (1 << i) and n in wanted:
            granted[n] = f"https://sim.example/granted/{n}"
    f2.response = __import__("mitmproxy.test.tutils", fromlist=["tresp"]).tresp(content=hx.xml(granted), status_code=200)
    hx.pump(mgr, ctx, "response", f2)
    back = hx.drain(ctx.to_proxy_queue)
    if len(back) != 1:
        return False
    f3 = HTTPFlow.from_state(back[0][2])
    shown = llsd.parse_xml(f3.response.content)
    for n, u in granted.items():
        if n not in shown:
            return False
        if n == "GetTexture":
            if not shown[n].startswith("http://gettexture-") or region.cap_urls.get("GetTextureProxyWrapper") != shown[n]:
                return False
        elif shown[n] != u:
            return False
        if region.cap_urls.get(n) != u:
            return False
    if ("MyProxyCap" in wanted) != ("MyProxyCap" in shown):
        return False
    if "MyProxyCap" in shown and shown["MyProxyCap"] != proxy_url:
        return False
    return set(shown) == set(granted) | ({"MyProxyCap"} if "MyProxyCap" in wanted else set())


# (definition order is scheduling order: the two Seed obligations pump real HTTP flows and run longest, so they come
# before the short one-shot-consumption shards)
# ---- several proxy-only caps in one Seed request -------------------------------------------------------------------
PNAMES = ["Foo", "ProxyCapA", "ProxyCapB"]
PORDERS = [(0, 1, 2), (0, 2, 1), (1, 0, 2), (1, 2, 0), (2, 0, 1), (2, 1, 0)]


@harness(pre=["0 <= order <= 5", "0 <= req_mask <= 7", "1 <= reg_mask <= 3"], post="_", timeout=400,
         note="Seed rewriting with up to two proxy-only caps through the real request/response handlers: every ordering of "
              "{Foo, ProxyCapA, ProxyCapB} in the request array (proxy-only names adjacent in either order, separated, "
              "leading, trailing) x every subset requested x which of the two are registered proxy-only on the region "
              "(an unregistered one is an ordinary cap the simulator grants): the upstream request is the viewer's request "
              "minus exactly the registered proxy-only names (order kept), the rewritten response keeps every "
              "simulator-granted cap and presents the proxy's URL of every requested registered proxy-only cap, and each of "
              "those URLs resolves to that cap on that region; after the round trip each proxy-only capability is still registered "
              "as such and registering it again yields the same URL", covers=COVERS)
def seed_adjacent_proxy_caps(order: int, req_mask: int, reg_mask: int) -> bool:
    reset_caps()
    ctx, mgr = hx.fresh_http()
    region = px.REGION
    order, req_mask, reg_mask = small(order, 0, 5), small(req_mask, 0, 7), small(reg_mask, 1, 3)
    proxy_urls = {}
    for bit, n in ((1, "ProxyCapA"), (2, "ProxyCapB")):
        if reg_mask & bit:
            proxy_urls[n] = region.register_proxy_cap(n)
    if len(set(proxy_urls.values())) != len(proxy_urls):
        return False
    wanted = [PNAMES[i] for i in PORDERS[order] if req_mask & (1 << i)]
    flow = hx.make_flow(url_host="test.localhost", port=4, path="/foo", content=hx.xml(wanted))
    hx.pump(mgr, ctx, "request", flow)
    back = hx.drain(ctx.to_proxy_queue)
    if len(back) != 1:
        return False
    from mitmproxy.http import HTTPFlow
    from mitmproxy.test import tutils
    f2 = HTTPFlow.from_state(back[0][2])
    upstream = llsd.parse_xml(f2.request.content)
    if upstream != [n for n in wanted if n not in proxy_urls]:
        return False
    # the simulator grants everything it was asked for (it only knows what it was asked for)
    granted = {n: f"https://sim.example/granted/{n}" for n in upstream}
    f2.response = tutils.tresp(content=hx.xml(granted), status_code=200)
    hx.pump(mgr, ctx, "response", f2)
    back = hx.drain(ctx.to_proxy_queue)
    if len(back) != 1:
        return False
    shown = llsd.parse_xml(HTTPFlow.from_state(back[0][2]).response.content)
    expect = dict(granted)
    for n in wanted:
        if n in proxy_urls:
            expect[n] = proxy_urls[n]
    if shown != expect:
        return False
    for n, u in proxy_urls.items():
        got = px.SM.resolve_cap(u + "/req")
        if not got or got.cap_name != n or got.type != CapType.PROXY_ONLY or got.region is None or got.region() is not region:
            return False
        # the seed round trip leaves the proxy-only registration as it was: same type by name, and registering the
        # capability again still yields the same URL
        if region.caps[n] != (CapType.PROXY_ONLY, u) or region.register_proxy_cap(n) != u:
            return False
    return all(region.cap_urls.get(n) == u for n, u in granted.items())


# ---- one name holding several URLs, some of them one-shot: what by-name lookup yields after each consumption ------
TNAME = "FooUploader"
TURLS = ["https://sim.example/up/a", "https://other.example/up", "https://sim.example/up/ab", "https://sim.example/up/zz"]
T_OTHER = "https://elsewhere.example/up/other"


def name_lookup_is(region, entries) -> bool:
    """entries: what the model holds under TNAME on `region`, most recently granted first, as (type, url)"""
    if not entries:
        return TNAME not in region.caps and TNAME not in region.cap_urls
    return region.caps[TNAME] == entries[0] and region.cap_urls[TNAME] == entries[0][1]


def request_and_consume(entries, region, url) -> bool:
    """one request extending `url`; the model consumes the one-shot entry the proxy attributed the request to"""
    req = url + "/x?y=1"
    got = px.SM.resolve_cap(req)
    cands = [e for e in entries if req.startswith(e[1])]
    if not got:                                  # (SessionManager.resolve_cap answers an empty, falsy CapData)
        return not cands                         # a surviving grant is a prefix of the request: it has to resolve
    hit = [e for e in cands if e == (got.type, got.base_url)]
    if not hit or got.cap_name != TNAME or got.region is None or got.region() is not region \
            or got.session is None or got.session() is not px.SESSION:
        return False
    if got.type == CapType.TEMPORARY:
        entries.remove(hit[0])
        again = px.SM.resolve_cap(req)           # exactly once: the consumed grant never answers again
        if again and again.type == CapType.TEMPORARY and again.base_url == got.base_url:
            return False
        if again and again.type == CapType.TEMPORARY:
            # the repeat was attributed to (and consumed) another prefix-related one-shot grant
            hit2 = [e for e in entries if req.startswith(e[1]) and e == (again.type, again.base_url)]
            if not hit2:
                return False
            entries.remove(hit2[0])
    return True


@harness(pre=["0 <= k <= 1", "0 <= c0 <= 3", "0 <= c1 <= 3"], post="_", timeout=400,
         note="one cap name holding 4 URLs (granted in sequence; each one either a permanent grant or a one-shot TEMPORARY "
              "registration: all 16 type patterns, 2 URL orders incl. a prefix-related pair) on either of two regions, the "
              "other region holding one one-shot URL under the same name; then two requests each extending one of the 4 URLs "
              "(all 16 pairs, incl. repeating a consumed one): every request is attributed to a surviving grant of that "
              "name/region/session, a consumed one-shot grant never answers again, and after EACH request lookup by name "
              "(region.caps / region.cap_urls) yields the most recently granted SURVIVING URL; the other region's one-shot "
              "grant stays untouched and resolves once at the end", covers=COVERS)
def temporary_consumption_order(region_b: bool, t0: bool, t1: bool, t2: bool, t3: bool, k: int, c0: int, c1: int) -> bool:
    reset_caps()
    k, c0, c1 = small(k, 0, 1), small(c0, 0, 3), small(c1, 0, 3)
    ri = 1 if region_b else 0
    region, other = REGIONS[ri], REGIONS[1 - ri]
    other.register_cap(TNAME, T_OTHER, CapType.TEMPORARY)
    urls = [TURLS[(j + 2 * k) % 4] for j in range(4)]
    entries = []                                 # most recent first
    for j, temp in enumerate((t0, t1, t2, t3)):
        if temp:
            region.register_cap(TNAME, urls[j], CapType.TEMPORARY)
            entries.insert(0, (CapType.TEMPORARY, urls[j]))
        else:
            region.update_caps({TNAME: urls[j]})
            entries.insert(0, (CapType.NORMAL, urls[j]))
        if not name_lookup_is(region, entries):
            return False
    for c in (c0, c1):
        if not request_and_consume(entries, region, urls[c]):
            return False
        if not name_lookup_is(region, entries):
            return False
        if not name_lookup_is(other, [(CapType.TEMPORARY, T_OTHER)]):
            return False
    last = px.SM.resolve_cap(T_OTHER + "/go")
    if not last or last.cap_name != TNAME or last.region is None or last.region() is not other or last.type != CapType.TEMPORARY:
        return False
    return name_lookup_is(other, []) and not px.SM.resolve_cap(T_OTHER + "/go") and name_lookup_is(region, entries)


shard(temporary_consumption_order, "c0", range(4), ["first", "second", "third", "newest"], globals())


# ------------------------------------------------------------------------------------------------ re-grants, two sessions
GURLS = ["https://sim.example/eq/aaaa", "https://sim.example/eq/bbbb", "https://sim.example/eq/aaaa/x"]


@harness(pre=["(0 <= g0) & (g0 <= 2) & (0 <= g1) & (g1 <= 2) & (0 <= g2) & (g2 <= 2) & (0 <= g3) & (g3 <= 2)", "0 <= n <= 4"],
         post="_", timeout=300, covers=COVERS,
         note="grant histories on ONE name: every sequence of up to 4 grants over 3 URLs (two of them prefix-related), including "
              "re-granting a URL that was granted before with another one in between (A, B, A): after every grant lookup by name "
              "(region.caps / region.cap_urls) yields the URL granted last, and every URL granted so far still resolves to that "
              "name, its region and session")
def regrant_order(region_b: bool, n: int, g0: int, g1: int, g2: int, g3: int) -> bool:
    reset_caps()
    region = REGION_B if region_b else px.REGION
    seq = [GURLS[small(g, 0, 2)] for g in (g0, g1, g2, g3)][:small(n, 0, 4)]
    granted = []
    for url in seq:
        region.update_caps({"EventQueueGet": url})
        granted.append(url)
        if region.caps["EventQueueGet"] != (CapType.NORMAL, url) or region.cap_urls["EventQueueGet"] != url:
            return False
        for u in set(granted):
            got = px.SM.resolve_cap(u + "/poll?x=1")
            if not got or got.cap_name != "EventQueueGet" or got.region() is not region or got.session() is not px.SESSION:
                return False
            # prefix-related grants: the property does not say which of the extended URLs wins; any granted one is accepted
            if got.base_url not in [v for v in set(granted) if (u + "/poll?x=1").startswith(v)]:
                return False
    return True


SESSION2 = px.SM.create_session({
    "session_id": UUID("44444444-4444-4444-4444-444444444444"), "secure_session_id": UUID("55555555-5555-5555-5555-555555555555"),
    "agent_id": UUID("66666666-6666-6666-6666-666666666666"), "circuit_code": 4321, "sim_ip": px.SIM[0], "sim_port": px.SIM[1],
    "region_x": 0, "region_y": 123, "seed_capability": "https://test.localhost:4/seed-of-second-session",
})
REGION_S2 = SESSION2.regions[-1]
ASSET_CAPS = ["GetTexture", "GetMesh", "ViewerAsset"]


@harness(pre=["0 <= ci <= 2", "0 <= order <= 1"], post="_", timeout=300, covers=COVERS,
         note="two SESSIONS in the same simulator (same circuit address, different seeds) whose regions are granted the SAME "
              "asset-capability URL and wrap it (either order): the two wrapper URLs differ, and a request extending each wrapper "
              "resolves to the wrapped capability on its own region and session")
def wrapper_caps_two_sessions(ci: int, order: int) -> bool:
    reset_caps()
    name = ASSET_CAPS[small(ci, 0, 2)]
    REGION_S2.caps.clear()
    REGION_S2.caps["Seed"] = (CapType.NORMAL, "https://test.localhost:4/seed-of-second-session")
    REGION_S2._recalc_caps()
    shared = "https://asset-cdn.example/cap/" + name.lower()
    pairs = [(px.REGION, px.SESSION), (REGION_S2, SESSION2)]
    if small(order, 0, 1):
        pairs.reverse()
    urls = []
    for region, session in pairs:
        region.update_caps({name: shared})
        urls.append(region.register_wrapper_cap(name))
    if urls[0] == urls[1]:
        return False
    for (region, session), url in zip(pairs, urls):
        got = px.SM.resolve_cap(url + "/?texture_id=1")
        if not got or got.cap_name != name + "ProxyWrapper" or got.type != CapType.WRAPPER:
            return False
        if got.region is None or got.region() is not region or got.session() is not session:
            return False
    return True


EVIDENCE = {
    "bounds": "histories of 3 operations (quick tier: 2) over 4 kinds x 2 regions x 3 names x 4 URLs + 2 request suffixes; seed "
              "rewriting over all 16 request subsets x 8 grant subsets (one proxy-only cap) and over 6 request orders x 8 request "
              "subsets x 3 registration subsets of two proxy-only caps; one name holding 4 URLs: 16 permanent/one-shot patterns x 2 "
              "URL orders x 2 regions x 16 request pairs",
    "outside": "names/URLs are catalogue constants (C-level string code); two sessions (second session not modelled); longer "
               "histories",
    "assumptions": ["when several granted URLs are prefixes of a request any of them is an acceptable attribution (the "
                    "statement does not disambiguate)"],
}
