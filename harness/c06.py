"""C06 — UDP proxying is transparent: right peer, exactly once, content intact.

Engine A.  (1) SOCKS5 UDP framing lemma with symbolic port / payload / header bytes;  (2) routing: all schedules of
<=2 (quick) / 3 (thorough) datagrams with symbolic source, kind and packet id through the real
UDPProxyProtocol.datagram_received -> InterceptingLLUDPProxyProtocol.handle_proxied_packet with the real byte codec,
a real SOCKS5UDPTransport on a recording socket, two regions (one with an open circuit, one without), no addons;
(3) circuit lifecycle: all schedules of 3 events (and of 4 events after an initial UseCircuitCode; thorough: all of 4)
over {viewer UseCircuitCode, DisableSimulator from the simulator, viewer CloseCircuit, region.mark_dead(), viewer chat,
simulator chat} on the second region through the same stack, against an independent model of the circuit being
absent / open / marked dead.
"""
import struct

from vlib.harness import harness, shard
from harness import proxyfix as px
from harness.proxyfix import small
from hippolyzer.lib.base.datatypes import UUID
from hippolyzer.lib.base.message.message import Message, Block
from hippolyzer.lib.base.message.udpserializer import UDPMessageSerializer
from hippolyzer.lib.base.message.udpdeserializer import UDPMessageDeserializer
from hippolyzer.lib.base.network.transport import Direction, UDPPacket
from hippolyzer.lib.proxy.circuit import ProxiedCircuit
from hippolyzer.lib.proxy.socks_proxy import UDPProxyProtocol
from hippolyzer.lib.proxy.transport import SOCKS5UDPTransport

_P = "hippolyzer.lib.proxy."
COVERS = (_P + "socks_proxy:UDPProxyProtocol.datagram_received", _P + "socks_proxy:UDPProxyProtocol._parse_socks_datagram",
          _P + "transport:SOCKS5UDPTransport.serialize", _P + "transport:SOCKS5UDPTransport.send_packet",
          _P + "lludp_proxy:InterceptingLLUDPProxyProtocol.handle_proxied_packet",
          _P + "lludp_proxy:InterceptingLLUDPProxyProtocol._ensure_message_allowed", _P + "sessions:Session.open_circuit",
          "hippolyzer.lib.client.state:BaseClientSession.region_by_circuit_addr",
          "hippolyzer.lib.base.message.message_dot_xml:MessageDotXML.validate_udp_msg")

ADDRS = ["10.1.2.3", "0.0.0.0", "255.255.255.255"]
SER = UDPMessageSerializer()


# ------------------------------------------------------------------------------------------------ framing
@harness(pre=["0 <= ai <= 2", "(0 <= port) & (port <= 65535)", "len(payload) <= 4"], post="_", timeout=120,
         note="SOCKS5 UDP framing: for ANY port, ANY payload <= 4 bytes, 3 addresses and both directions, what the transport "
              "emits with a header is parsed back by the proxy to exactly ((ip, port), payload); outbound packets without "
              "forcing carry no header", covers=COVERS)
def socks_framing_roundtrip(ai: int, port: int, payload: bytes, incoming: bool) -> bool:
    ip = ADDRS[small(ai, 0, 2)]
    far, near = (ip, port), ("127.0.0.1", 4000)
    pkt = UDPPacket(src_addr=far if incoming else near, dst_addr=near if incoming else far, data=payload,
                    direction=Direction.IN if incoming else Direction.OUT)
    framed = SOCKS5UDPTransport.serialize(pkt, force_socks_header=True)
    parsed = UDPProxyProtocol(near)._parse_socks_datagram(framed)
    if parsed is None or parsed[0] != (ip, port) or bytes(parsed[1]) != payload:
        return False
    plain = SOCKS5UDPTransport.serialize(pkt)
    return (plain == framed) if incoming else (bytes(plain) == payload)


@harness(pre=["len(hdr) == 4", "0 <= ai <= 2", "len(tail) <= 4"], post="_", raises=(struct.error, IndexError, OSError), timeout=300,
         note="SOCKS5 header rejection: for ANY 4 header bytes, 3 addresses (inet_ntoa is C: realized) and ANY tail <= 4 bytes the "
              "parser returns None exactly when RSV != 0, FRAG != 0 or the address type is neither IPv4 nor domain; for IPv4 it "
              "returns the address, the big-endian port and the remaining payload", covers=COVERS)
def socks_header_rejection(hdr: bytes, ai: int, tail: bytes) -> bool:
    ip = ADDRS[small(ai, 0, 2)]
    rest = bytes(int(x) for x in ip.split(".")) + tail
    data = hdr + rest
    got = UDPProxyProtocol(("127.0.0.1", 1))._parse_socks_datagram(data)
    bad = hdr[0] != 0 or hdr[1] != 0 or hdr[2] != 0 or (hdr[3] != 1 and hdr[3] != 3)
    if bad:
        return got is None
    if got is None:
        return False
    if hdr[3] == 1:
        if len(tail) < 2:
            return True      # short IPv4 datagram: struct.error (declared) or discarded upstream
        (addr, port), payload = got
        return addr == ip and port == tail[0] * 256 + tail[1] and bytes(payload) == tail[2:]
    return True


# ------------------------------------------------------------------------------------------------ routing
SIM_B = ("127.0.0.1", 5)           # region registered, no circuit opened
STRANGER = ("192.0.2.9", 9)
U = [UUID("11111111-1111-1111-1111-111111111111"), UUID("33333333-3333-3333-3333-333333333333")]


class Sock:
    def __init__(self):
        self.sent = []

    def sendto(self, data, addr):
        self.sent.append((bytes(data), addr))

    def close(self):
        pass


REAL_DESER = UDPMessageDeserializer(settings=px.SM.settings)
REGION_B = px.SESSION.register_region(circuit_addr=SIM_B, seed_url="https://test.localhost:4/bar", handle=456)

SRC = ["viewer->simA", "simA", "viewer->simB(no circuit)", "stranger"]
KIND = ["valid", "truncated", "bad_frag", "udp_banned", "garbage_body", "unknown_msgnum"]
NS, NK = len(SRC), len(KIND)


def make_datagram(kind, outgoing, pid):
    if outgoing:
        msg = Message("ChatFromViewer", Block("AgentData", AgentID=U[1], SessionID=U[0]),
                      Block("ChatData", Message="hi", Type=1, Channel=0), packet_id=pid, direction=Direction.OUT)
    else:
        msg = px.chat(pid, outgoing=False)
    if kind == 3:
        msg = Message("EnableSimulator", Block("SimulatorInfo", Handle=1, IP="10.0.0.1", Port=13000), packet_id=pid)
    body = SER.serialize(msg)
    if kind == 1:
        body = body[:5]
    elif kind == 4:
        body = body[:10] + b"\xff" * 3
    elif kind == 5:
        body = body[:6] + b"\xff\xff\x7f\x7f"
    return msg, body


def deliver(sock, src_i, kind, pid):
    """one datagram through the real UDP association; returns (expected destination or None, message, new sends)"""
    before = len(sock.sent)
    outgoing = src_i in (0, 2)
    if not outgoing and kind == 2:
        kind = 0                     # FRAG only exists in the viewer-side SOCKS header: inbound this is a valid datagram
    msg, body = make_datagram(kind, outgoing, pid)
    if outgoing:
        far = px.SIM if src_i == 0 else SIM_B
        hdr = struct.pack("!HBB4sH", 0, 1 if kind == 2 else 0, 1, bytes(int(x) for x in far[0].split(".")), far[1])
        data, source = hdr + body, px.CLIENT
    else:
        data, source = body, (px.SIM if src_i == 1 else STRANGER)
    try:
        px.PROTO.datagram_received(data, source)
    except Exception:
        pass             # asyncio logs exceptions escaping datagram_received; what matters is what was (not) sent / state
    new = sock.sent[before:]
    deliverable = kind == 0 and src_i in (0, 1)
    if src_i == 1 and kind == 3:
        deliverable = False
    if src_i == 0 and kind == 3:
        deliverable = True          # the UDP ban list applies to inbound messages only
        msg = msg
    dest = (px.SIM if src_i == 0 else px.CLIENT) if deliverable else None
    return dest, msg, new, outgoing


def state_fingerprint():
    return (len(px.SESSION.regions), tuple((r.circuit_addr, r.circuit is not None and r.circuit.is_alive) for r in px.SESSION.regions),
            tuple(sorted(px.PROTO.far_to_near_map.items())), px.SESSION.main_region is px.REGION,
            px.REGION.circuit.out_injections._packet_id_base, px.REGION.circuit.in_injections._packet_id_base)


def fresh():
    px.reset(())
    sock = Sock()
    px.PROTO.transport = SOCKS5UDPTransport(sock)
    px.REGION.circuit = ProxiedCircuit(px.CLIENT, px.SIM, px.PROTO.transport, logging_hook=None)
    REGION_B.circuit = None
    px.PROTO.deserializer = REAL_DESER
    px.PROTO.far_to_near_map.clear()
    px.PROTO.far_to_near_map[px.SIM] = px.CLIENT
    return sock


def check_delivery(dest, msg, new, outgoing, pid, sim=px.SIM):
    if dest is None:
        return not new
    if len(new) != 1 or new[0][1] != dest:
        return False
    data = new[0][0]
    if not outgoing:
        # towards the viewer: wrapped with the simulator's address
        parsed = UDPProxyProtocol(px.CLIENT)._parse_socks_datagram(data)
        if parsed is None or parsed[0] != sim:
            return False
        data = bytes(parsed[1])
    deser = UDPMessageDeserializer()
    got = deser.deserialize(data)
    return got.name == msg.name and got.to_dict() == msg.to_dict() and got.packet_id == pid


@harness(pre=["0 <= s0 < NS", "0 <= k0 < NK", "0 <= s1 < NS", "0 <= k1 < NK", "p0 in (1, 70000)", "p1 == p0 + 1"], post="_",
         timeout=400,
         note="all 2-datagram schedules (4 sources x 6 kinds each; packet ids (1,2) or (70000,70001)) through the real UDP "
              "association with the real byte codec: each deliverable datagram reaches exactly the right peer exactly once "
              "with equal content (inbound wrapped with the simulator's address), every other one (unknown host, region without "
              "circuit, UDP-banned inbound, truncated, wrong FRAG, garbage, unknown message) produces no send; the final "
              "session/circuit state equals that of the same schedule with the bad datagrams removed",
         covers=COVERS)
def routing2(s0: int, k0: int, p0: int, s1: int, k1: int, p1: int) -> bool:
    sched = [(small(s0, 0, NS - 1), small(k0, 0, NK - 1), p0), (small(s1, 0, NS - 1), small(k1, 0, NK - 1), p1)]
    sock = fresh()
    good = []
    for src_i, kind, pid in sched:
        dest, msg, new, outgoing = deliver(sock, src_i, kind, pid)
        if not check_delivery(dest, msg, new, outgoing, pid):
            return False
        if dest is not None:
            good.append((src_i, kind, pid))
    final = state_fingerprint()
    # non-interference: replay only the deliverable datagrams on a fresh stack
    sock2 = fresh()
    for src_i, kind, pid in good:
        deliver(sock2, src_i, kind, pid)
    ref = state_fingerprint()
    # a SOCKS datagram towards a region without circuit still teaches the association that address (by design)
    strip = lambda fp: fp[:2] + (tuple(x for x in fp[2] if x[0] != SIM_B),) + fp[3:]   # noqa: E731
    return strip(final) == strip(ref)


shard(routing2, "s0", range(NS), ["viewer_simA", "simA", "viewer_simB", "stranger"], globals())


# ------------------------------------------------------------------------------------------------ circuit lifecycle
# The second region's circuit is opened, shut down and re-opened by traffic.  What the repo documents (comments in
# handle_proxied_packet / Session.open_circuit, region_by_circuit_addr, BaseClientRegion.mark_dead):
#   * a viewer UseCircuitCode for a registered simulator address "will create a circuit, replace a circuit, or do nothing
#     if circuit is already alive" - and is then forwarded like any other datagram;
#   * CloseCircuit / DisableSimulator passing through mark the region dead (the circuit object stays, is_alive False);
#   * without a circuit object: "No circuit for %r, dropping packet!".
# The repo says nothing about ordinary traffic on a circuit that was marked dead (it keeps forwarding it: the viewer's
# CloseCircuit answer to DisableSimulator has to get through), and C06 only speaks about open and unknown circuits, so in
# that state the model only demands at-most-once, right peer, intact.
EV = ["viewer UseCircuitCode->simB", "simB DisableSimulator->viewer", "viewer CloseCircuit->simB", "region.mark_dead()",
      "viewer chat->simB", "simB chat->viewer"]
NE = len(EV)
NONE, ALIVE, DEAD = 0, 1, 2


def lifecycle_message(ev, pid):
    if ev == 0:
        return Message("UseCircuitCode", Block("CircuitCode", Code=1234, SessionID=U[0], ID=U[1]), packet_id=pid,
                       direction=Direction.OUT)
    if ev == 1:
        return Message("DisableSimulator", packet_id=pid, direction=Direction.IN)
    if ev == 2:
        return Message("CloseCircuit", packet_id=pid, direction=Direction.OUT)
    return make_datagram(0, ev == 4, pid)[0]


def push(sock, msg, outgoing, sim):
    """one well-formed datagram between the viewer and `sim` through the real UDP association; returns the new sends"""
    before = len(sock.sent)
    body = SER.serialize(msg)
    if outgoing:
        data = struct.pack("!HBB4sH", 0, 0, 1, bytes(int(x) for x in sim[0].split(".")), sim[1]) + body
        source = px.CLIENT
    else:
        data, source = body, sim
    try:
        px.PROTO.datagram_received(data, source)
    except Exception:
        pass             # as in deliver(): what matters is what was (not) sent and the state
    return sock.sent[before:]


def run_lifecycle(events):
    sock = fresh()
    circuit_a = px.REGION.circuit
    state = NONE
    pids = {True: 1, False: 1}           # next packet id per direction (outgoing?)
    for ev in events:
        old = REGION_B.circuit
        if ev == 3:
            before = len(sock.sent)
            REGION_B.mark_dead()
            if len(sock.sent) != before:
                return False
            if state == ALIVE:
                state = DEAD
        else:
            outgoing = ev in (0, 2, 4)
            pid = pids[outgoing]
            pids[outgoing] = pid + 1
            msg = lifecycle_message(ev, pid)
            new = push(sock, msg, outgoing, SIM_B)
            dest = SIM_B if outgoing else px.CLIENT
            if ev == 0:
                # always reaches the simulator; afterwards the circuit is open: untouched if it was alive, else a new one
                if not check_delivery(dest, msg, new, outgoing, pid, SIM_B):
                    return False
                now = REGION_B.circuit
                if now is None or (now is old) != (state == ALIVE):
                    return False
                if now.near_host != px.CLIENT or now.host != SIM_B:
                    return False
                state = ALIVE
            elif state == NONE:
                if new:
                    return False
            elif state == ALIVE:
                if not check_delivery(dest, msg, new, outgoing, pid, SIM_B):
                    return False
                if ev in (1, 2):
                    state = DEAD
            else:
                if new and not check_delivery(dest, msg, new, outgoing, pid, SIM_B):
                    return False
        # the session's view of the region follows the model
        if (REGION_B.circuit is None) != (state == NONE) or bool(REGION_B.is_alive) != (state == ALIVE):
            return False
        if px.REGION.circuit is not circuit_a or not circuit_a.is_alive:
            return False
    # the other region's traffic is undisturbed, both ways
    for outgoing in (True, False):
        msg = make_datagram(0, outgoing, 900)[0]
        new = push(sock, msg, outgoing, px.SIM)
        if not check_delivery(px.SIM if outgoing else px.CLIENT, msg, new, outgoing, 900):
            return False
    return True


_LIFE_NOTE = ("circuit lifecycle of the second region through the real UDP association and byte codec, events from {viewer "
              "UseCircuitCode, DisableSimulator from the simulator, viewer CloseCircuit, region.mark_dead(), viewer chat, "
              "simulator chat}, against an independent three-state model (no circuit / open / marked dead): UseCircuitCode "
              "always reaches the simulator exactly once and leaves an open circuit (the same object if it was alive, a fresh "
              "one if there was none or it was marked dead); with no circuit nothing is sent; on an open circuit every "
              "datagram reaches the right peer exactly once intact (inbound wrapped with the simulator's address); on a "
              "circuit marked dead at most once, right peer, intact (the repo documents nothing more for that state); "
              "region.circuit / is_alive follow the model after every event; the first region's circuit is untouched and "
              "still carries one datagram each way afterwards")


_LABELS = ["ucc", "disable", "close", "markdead", "vchat", "schat"]


@harness(pre=["0 <= e0 < NE", "0 <= e1 < NE", "0 <= e2 < NE"], post="_", timeout=200,
         note="ALL schedules of 3 events: " + _LIFE_NOTE, covers=COVERS)
def lifecycle3(e0: int, e1: int, e2: int) -> bool:
    return run_lifecycle([small(e0, 0, NE - 1), small(e1, 0, NE - 1), small(e2, 0, NE - 1)])


@harness(pre=["0 <= e1 < NE", "0 <= e2 < NE", "0 <= e3 < NE"], post="_", timeout=200,
         note="ALL schedules of 4 events that start with the viewer's UseCircuitCode (open, then any 3 events: shut down / "
              "re-open / use): " + _LIFE_NOTE, covers=COVERS)
def reopen4(e1: int, e2: int, e3: int) -> bool:
    return run_lifecycle([0, small(e1, 0, NE - 1), small(e2, 0, NE - 1), small(e3, 0, NE - 1)])


@harness(pre=["1 <= e0 < NE", "0 <= e1 < NE", "0 <= e2 < NE", "0 <= e3 < NE"], post="_", timeout=600, tiers=("thorough",),
         note="ALL schedules of 4 events whose first event is not UseCircuitCode (thorough tier; reopen4 has the others): "
              + _LIFE_NOTE, covers=COVERS)
def lifecycle4(e0: int, e1: int, e2: int, e3: int) -> bool:
    return run_lifecycle([small(e0, 1, NE - 1), small(e1, 0, NE - 1), small(e2, 0, NE - 1), small(e3, 0, NE - 1)])


shard(lifecycle3, "e0", range(NE), [f"first_{x}" for x in _LABELS], globals())
shard(reopen4, "e1", range(NE), [f"then_{x}" for x in _LABELS], globals())
shard(lifecycle4, "e0", range(1, NE), [f"first_{x}" for x in _LABELS[1:]], globals())

# ------------------------------------------------------------------------------------------------ specially-handled names
from hippolyzer.lib.base.message.template_dict import DEFAULT_TEMPLATE_DICT  # noqa: E402
from hippolyzer.lib.base.message.message_dot_xml import MessageDotXML  # noqa: E402

# every message name handle_proxied_packet branches on, plus two it does not
NAMED = ["UseCircuitCode", "AgentMovementComplete", "RegionHandshake", "CloseCircuit", "DisableSimulator", "AgentDataUpdate",
         "CompletePingCheck", "ChatFromSimulator"]
_MSG_XML = MessageDotXML()
_NAMED_DESER = UDPMessageDeserializer()


def named_message(name, pid, outgoing):
    tmpl = DEFAULT_TEMPLATE_DICT[name]
    blocks = [Block(b.name, fill_missing=True) for b in tmpl.blocks]
    if name == "UseCircuitCode":
        blocks = [Block("CircuitCode", Code=1234, SessionID=px.SESSION.id, ID=px.SESSION.agent_id)]
    msg = Message(name, *blocks, packet_id=pid, direction=Direction.OUT if outgoing else Direction.IN)
    # through the codec once so that defaults are what the wire carries
    got = _NAMED_DESER.deserialize(SER.serialize(msg))     # (kept alive: messages hold only a weak reference to it)
    out = Message(name, packet_id=pid, direction=msg.direction)
    for bname, blist in got.blocks.items():
        for b in blist:
            out.add_block(Block(bname, **dict(b.items())))
    return out


@harness(pre=[f"0 <= mi < {len(NAMED)}", "p0 in (1, 70000)"], post="_", timeout=300,
         note="every message name the proxy's packet handler treats specially (UseCircuitCode, AgentMovementComplete, "
              "RegionHandshake, CloseCircuit, DisableSimulator, AgentDataUpdate) and two ordinary ones, in BOTH directions on the "
              "main region's open circuit, template-default content, through the real UDP association and byte codec: delivered "
              "to the right peer exactly once with equal content (inbound wrapped with the simulator's address), unless "
              "message.xml bans the name over UDP inbound, in which case nothing is sent; a second ordinary datagram each way "
              "is still delivered afterwards when the circuit is still open", covers=COVERS)
def named_message_transparency(mi: int, outgoing: bool, p0: int) -> bool:
    name = NAMED[small(mi, 0, len(NAMED) - 1)]
    outgoing = True if outgoing else False
    sock = fresh()
    msg = named_message(name, p0, outgoing)
    new = push(sock, msg, outgoing, px.SIM)
    allowed = outgoing or _MSG_XML.validate_udp_msg(name)
    dest = (px.SIM if outgoing else px.CLIENT) if allowed else None
    if not check_delivery(dest, msg, new, outgoing, p0):
        return False
    if px.REGION.circuit is not None and px.REGION.circuit.is_alive:
        for og in (True, False):
            m2 = make_datagram(0, og, p0 + 1)[0]
            if not check_delivery(px.SIM if og else px.CLIENT, m2, push(sock, m2, og, px.SIM), og, p0 + 1):
                return False
    return True


# ------------------------------------------------------------------------------------------------ pre-session datagrams
from hippolyzer.lib.proxy.lludp_proxy import InterceptingLLUDPProxyProtocol  # noqa: E402

CLIENT2 = ("127.0.0.1", 2)
PRE_KINDS = ["UseCircuitCode naming the session another association already claimed", "UseCircuitCode naming an unknown session",
             "an ordinary message before any UseCircuitCode", "UseCircuitCode arriving from the simulator side"]


@harness(pre=["0 <= kind <= 3", "0 <= follow <= 1", "p0 in (1, 70000)"], post="_", timeout=300, covers=COVERS + (
         "hippolyzer.lib.proxy.sessions:SessionManager.claim_session",),
         note="datagrams on a SECOND UDP association that has no session yet, while the first association's session is live: a "
              "UseCircuitCode naming the already-claimed session, one naming an unknown session, an ordinary message, and a "
              "UseCircuitCode from the simulator side (each optionally followed by an ordinary viewer datagram): nothing is sent "
              "anywhere, the second association stays without a session, and the first association's session, regions and "
              "circuit are untouched and still carry a datagram each way")
def pre_session_datagrams(kind: int, follow: int, p0: int) -> bool:
    kind, follow = small(kind, 0, 3), small(follow, 0, 1)
    sock = fresh()
    fp0 = state_fingerprint()
    sessions0 = list(px.SM.sessions)
    proto2 = InterceptingLLUDPProxyProtocol(CLIENT2, px.SM)
    sock2 = Sock()
    proto2.transport = SOCKS5UDPTransport(sock2)
    sid = px.SESSION.id if kind != 1 else UUID("99999999-9999-9999-9999-999999999999")
    if kind in (0, 1, 3):
        msg = Message("UseCircuitCode", Block("CircuitCode", Code=1234, SessionID=sid, ID=px.SESSION.agent_id), packet_id=p0,
                      direction=Direction.IN if kind == 3 else Direction.OUT)
    else:
        msg = make_datagram(0, True, p0)[0]
    msgs = [(msg, kind != 3)]
    if follow:
        msgs.append((make_datagram(0, True, p0 + 1)[0], True))
    for m, outgoing in msgs:
        body = SER.serialize(m)
        if outgoing:
            data = struct.pack("!HBB4sH", 0, 0, 1, bytes(int(x) for x in px.SIM[0].split(".")), px.SIM[1]) + body
            src = CLIENT2
        else:
            data, src = body, px.SIM
        try:
            proto2.datagram_received(data, src)
        except Exception:
            pass
        if sock2.sent or sock.sent or proto2.session is not None:
            return False
    if list(px.SM.sessions) != sessions0 or state_fingerprint() != fp0 or px.PROTO.session is not px.SESSION:
        return False
    for og in (True, False):
        m2 = make_datagram(0, og, 900)[0]
        if not check_delivery(px.SIM if og else px.CLIENT, m2, push(sock, m2, og, px.SIM), og, 900):
            return False
    return True


EVIDENCE = {
    "bounds": "framing: any port, payload <= 4 bytes, any 4 header bytes + tail <= 8; routing: schedules of 2 datagrams over 4 "
              "sources x 6 kinds, two packet-id pairs, one session, two regions; circuit lifecycle: schedules of 3 events, and "
              "of 4 events starting with UseCircuitCode (thorough: all schedules of 4), over 6 event kinds on the second "
              "region, then one datagram each way on the first region",
    "outside": "message content is a concrete catalogue (C01 covers the codec); IPv6; claiming a pending session via the first "
               "UseCircuitCode (covered by the repo's own integration tests; here the session is already claimed); longer "
               "schedules; whether ordinary traffic on a circuit that was marked dead is forwarded (the repo forwards it and "
               "documents nothing; the model only demands at most once, right peer, intact there)",
    "assumptions": ["exceptions escaping datagram_received are logged by asyncio and count as 'discarded' provided nothing was "
                    "sent and the state oracle holds"],
}
