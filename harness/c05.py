"""C05 — proxied circuit: acknowledgements stay truthful under injection, drops, resends.

Engine A: all event sequences up to a depth bound over {viewer sends, sim sends (reliable or not, with or without a
piggy-backed ack), proxy injects either way (reliable or not), an addon drops the packet, either side sends a
PacketAck (one body id; one body id + one appended ack; two body ids), clock advances + resend timer} through the real
handle_proxied_packet / ProxiedCircuit / InjectionTracker, compared step by step with an abstract reference model (sets
of ids each endpoint sent, the wire<->endpoint id bijection, injected wire ids, pending reliable injections).  The
multi-id PacketAck forms are what lets a single acknowledgement packet mix ids of injected and of real packets.
"""
from vlib.harness import harness, shard
from harness import proxyfix as px
from harness.proxyfix import small
from hippolyzer.lib.base.message.message import Message, Block
from hippolyzer.lib.base.message.msgtypes import PacketFlags
from hippolyzer.lib.base.network.transport import Direction

_P = "hippolyzer.lib.proxy."
COVERS = (_P + "circuit:ProxiedCircuit.prepare_message", _P + "circuit:ProxiedCircuit._rewrite_packet_ack",
          _P + "circuit:ProxiedCircuit.drop_message", _P + "circuit:InjectionTracker.get_effective_id",
          _P + "circuit:InjectionTracker.get_original_id", _P + "circuit:InjectionTracker.gen_injectable_id",
          "hippolyzer.lib.base.message.circuit:Circuit.send", "hippolyzer.lib.base.message.circuit:Circuit.collect_acks",
          "hippolyzer.lib.base.message.circuit:Circuit.resend_unacked", "hippolyzer.lib.base.message.circuit:Circuit.send_acks",
          _P + "lludp_proxy:InterceptingLLUDPProxyProtocol.handle_proxied_packet")

OUT, IN = Direction.OUT, Direction.IN
REL, ACK, RESENT = int(PacketFlags.RELIABLE), int(PacketFlags.ACK), int(PacketFlags.RESENT)


class Dropper:
    """addon that drops the next proxied message when armed"""
    def __init__(self):
        self.armed = False

    def handle_lludp_message(self, session, region, message):
        if self.armed:
            self.armed = False
            region.circuit.drop_message(message)
            return True
        return None


class Side:
    """reference model of one direction d of the circuit (packets travelling in direction d)"""
    def __init__(self):
        self.next_own = 1          # next id the sending endpoint will use
        self.wire_of = {}          # endpoint id -> wire id, for forwarded packets
        self.own_of = {}           # wire id -> endpoint id
        self.injected = []         # wire ids the proxy used for injected packets in this direction
        self.seen_wire = []        # every wire id delivered to the receiving endpoint, in order
        self.highest = 0


class World:
    def __init__(self):
        self.side = {OUT: Side(), IN: Side()}
        self.pending = {}          # (direction, wire id) -> [future, last_resent, tries_left] for reliable injections
        self.ok = True


# event kinds
E_FWD, E_FWD_REL, E_FWD_ACK, E_INJ, E_INJ_REL, E_DROP_REL_ACK, E_PACKETACK, E_TIMER, E_PACKETACK_PLUS, E_PACKETACK_TWO = range(10)
NE = 10
KINDS = ["fwd", "fwd_reliable", "fwd_with_ack", "inject", "inject_reliable", "drop_reliable_with_ack", "packetack", "timer",
         "packetack_plus_appended", "packetack_two_blocks"]


def step(f, w: World, dropper, kind, outgoing, pick):
    """apply one event to the real stack and to the model; returns False on any disagreement"""
    d = OUT if outgoing else IN
    rd = IN if outgoing else OUT
    s, r = w.side[d], w.side[rd]
    before = len(f.rec.sent)
    if kind in (E_INJ, E_INJ_REL):
        msg = Message("ChatFromViewer" if outgoing else "ChatFromSimulator", Block("ChatData", fill_missing=True),
                      direction=d, flags=REL if kind == E_INJ_REL else 0)
        if kind == E_INJ_REL:
            fut = f.circuit.send_reliable(msg)
        else:
            f.circuit.send(msg)
        new = f.rec.sent[before:]
        wire = s.highest + 1
        if len(new) != 1 or new[0][0].obj is not msg or new[0][0].packet_id != wire or not new[0][0].synthetic:
            return False                      # injected id: above every id seen in that direction
        if wire in s.own_of:
            return False
        s.injected.append(wire)
        s.seen_wire.append(wire)
        s.highest = wire
        if kind == E_INJ_REL:
            w.pending[(d, wire)] = [fut, px.Clock.now_s, 10]
        return True
    if kind == E_TIMER:
        px.Clock.now_s += 3
        f.circuit.resend_unacked()
        new = [x[0] for x in f.rec.sent[before:]]
        exp = []
        for (pd, wire), st in list(w.pending.items()):
            st[2] -= 1
            if st[2] == 0:
                del w.pending[(pd, wire)]
                continue
            st[1] = px.Clock.now_s
            exp.append((pd, wire))
        got = [(x.direction, x.packet_id) for x in new]
        return got == exp and all(x.flags & RESENT and x.flags & REL for x in new)
    # events that are packets from an endpoint: choose the acks it carries among wire ids it has RECEIVED
    acks = ()
    body_ids = ()
    received = r.seen_wire
    if kind in (E_FWD_ACK, E_DROP_REL_ACK, E_PACKETACK, E_PACKETACK_PLUS, E_PACKETACK_TWO):
        if not received:
            return True                       # nothing to acknowledge yet: event not applicable
        acks = (received[pick % len(received)],)
    if kind == E_PACKETACK_PLUS:
        # a PacketAck whose body acknowledges one received id and which also carries an appended ack for another
        if len(received) < 2:
            return True                       # needs two distinct received ids: not applicable yet
        body_ids = acks
        acks = (received[(pick + 1) % len(received)],)
    if kind == E_PACKETACK_TWO:
        # a standalone PacketAck whose body acknowledges two distinct received ids (either order; any mix of ids of
        # injected and of forwarded packets), nothing appended
        if len(received) < 2:
            return True                       # needs two distinct received ids: not applicable yet
        body_ids = (acks[0], received[(pick + 1) % len(received)])
        acks = ()
    own = s.next_own
    s.next_own += 1
    reliable = kind in (E_FWD_REL, E_DROP_REL_ACK)
    if kind == E_PACKETACK:
        msg = Message("PacketAck", *[Block("Packets", ID=a) for a in acks], packet_id=own, flags=0, direction=d)
    elif kind == E_PACKETACK_PLUS:
        msg = Message("PacketAck", *[Block("Packets", ID=a) for a in body_ids], packet_id=own, flags=ACK, acks=acks,
                      direction=d)
    elif kind == E_PACKETACK_TWO:
        msg = Message("PacketAck", *[Block("Packets", ID=a) for a in body_ids], packet_id=own, flags=0, direction=d)
    else:
        msg = px.chat(own, reliable=reliable, outgoing=outgoing, acks=acks)
    if kind == E_DROP_REL_ACK:
        dropper.armed = True
    px.inject_packet(msg, outgoing)
    new = [x[0] for x in f.rec.sent[before:]]
    # what the acks mean in the model: acks of injected ids stay inside the proxy (and complete the injection's future),
    # the others are translated back to the receiver's own ids
    shown = []
    all_acked = list(dict.fromkeys(tuple(body_ids) + tuple(acks)))
    for a in all_acked:
        if a in r.injected:
            st = w.pending.pop((rd, a), None)
            if st is not None and not st[0].done():
                return False
        else:
            shown.append(r.own_of[a])
    # reference bijection: the own-th wire id not used by an injection
    wire = own
    for i in sorted(s.injected):
        if i <= wire:
            wire += 1
    if kind == E_DROP_REL_ACK:
        # dropped: nothing forwarded; the sender gets an ack for its own id, the piggy-backed acks travel on separately
        exp_names = []
        back = [x for x in new if x.direction == rd]
        fwd = [x for x in new if x.direction == d]
        if len(back) != 1 or back[0].name != "PacketAck" or back[0].ids != (own,):
            return False
        if shown:
            if len(fwd) != 1 or fwd[0].name != "PacketAck" or fwd[0].ids != tuple(shown):
                return False
        elif fwd:
            return False
        # the ack to the sender is a proxy-originated packet: it takes a fresh injected wire id in its direction
        if back[0].packet_id != r.highest + 1:
            return False
        r.injected.append(back[0].packet_id)
        r.seen_wire.append(back[0].packet_id)
        r.highest = back[0].packet_id
        # the forwarded acks reuse the dropped packet's own id (unreliable, never acknowledged)
        if fwd and fwd[0].packet_id != own:
            return False
        return True
    if kind == E_PACKETACK_PLUS:
        # every acknowledged non-injected id reaches the receiver exactly once (in the body or appended), injected ones never
        if not shown:
            s.highest = max(s.highest, wire)
            return not new
        if len(new) != 1 or new[0].obj is not msg or new[0].packet_id != wire:
            return False
        got = sorted(list(new[0].ids) + list(new[0].acks))
        if got != sorted(shown):
            return False
        s.wire_of[own] = wire
        s.own_of[wire] = own
        s.seen_wire.append(wire)
        s.highest = max(s.highest, wire)
        return all(a in r.wire_of for a in shown)
    if kind == E_PACKETACK_TWO:
        # the body that reaches the receiver holds exactly the non-injected ids, translated, in the order given, each once;
        # if both ids belong to injections the packet never leaves the proxy
        if not shown:
            s.highest = max(s.highest, wire)
            return not new
        if len(new) != 1:
            return False
        x = new[0]
        if x.obj is not msg or x.direction != d or x.packet_id != wire or x.ids != tuple(shown) or x.acks != ():
            return False
        if x.flags & ACK or x.flags & REL:
            return False
        s.wire_of[own] = wire
        s.own_of[wire] = own
        s.seen_wire.append(wire)
        s.highest = max(s.highest, wire)
        return all(a in r.wire_of for a in shown)
    if kind == E_PACKETACK and not shown:
        # an ack purely for injected packets never leaves the proxy (its id was still consumed by the endpoint)
        s.highest = max(s.highest, wire)
        return not new
    if len(new) != 1:
        return False
    x = new[0]
    if x.obj is not msg or x.direction != d or x.packet_id != wire:
        return False
    if kind == E_PACKETACK:
        if x.ids != tuple(shown) or x.acks != ():
            return False
    else:
        if x.acks != tuple(shown) or bool(x.flags & ACK) != bool(shown) or bool(x.flags & REL) != reliable:
            return False
    s.wire_of[own] = wire
    s.own_of[wire] = own
    s.seen_wire.append(wire)
    s.highest = max(s.highest, wire)
    # every ack shown to the receiver is an id the receiver itself sent
    return all(a in r.wire_of for a in shown)


def run(events):
    dropper = Dropper()
    f = px.reset([dropper])
    w = World()
    for kind, outgoing, pick in events:
        if not step(f, w, dropper, kind, outgoing, pick):
            return False
    # completion signals: exactly the acknowledged reliable injections are done
    for (d, wire), st in w.pending.items():
        if st[0].done():
            return False
    return True


_PRE3 = ["0 <= k0 < NE", "0 <= k1 < NE", "0 <= k2 < NE", "0 <= p1 <= 2", "0 <= p2 <= 2"]


@harness(pre=_PRE3, post="_", timeout=600,
         note="all 3-event histories over 10 event kinds x direction (each event) x choice of acknowledged id(s): every ack shown "
              "to an endpoint is translated to an id that endpoint sent, acks for injected ids never leave the proxy and "
              "complete the injection's future - also when one PacketAck mixes an injected id with a real one (body + appended, "
              "or two body blocks in either order: exactly the real id comes out, once) - a dropped reliable packet is acked to its sender and its piggy-backed acks are "
              "forwarded in a separate PacketAck, injected ids are fresh, forwarded ids follow the reference bijection, reliable "
              "injections are re-sent with the same id + RESENT by the timer",
         covers=COVERS)
def histories3(k0: int, d0: bool, k1: int, d1: bool, p1: int, k2: int, d2: bool, p2: int) -> bool:
    ev = [(small(k0, 0, NE - 1), d0, 0), (small(k1, 0, NE - 1), d1, small(p1, 0, 2)), (small(k2, 0, NE - 1), d2, small(p2, 0, 2))]
    return run(ev)


@harness(pre=_PRE3 + ["0 <= k3 < NE", "0 <= p3 <= 3"], post="_", timeout=1500, tiers=("thorough",),
         note="all 4-event histories (thorough tier)", covers=COVERS)
def histories4(k0: int, d0: bool, k1: int, d1: bool, p1: int, k2: int, d2: bool, p2: int, k3: int, d3: bool, p3: int) -> bool:
    ev = [(small(k0, 0, NE - 1), d0, 0), (small(k1, 0, NE - 1), d1, small(p1, 0, 2)), (small(k2, 0, NE - 1), d2, small(p2, 0, 2)),
          (small(k3, 0, NE - 1), d3, small(p3, 0, 3))]
    return run(ev)


shard(histories3, "k0", range(NE), KINDS, globals())
for _w in shard(histories4, "k0", range(NE), KINDS, globals()):
    shard(_w, "k1", range(NE), KINDS, globals())

# ------------------------------------------------------------------------------------------------ resend cadence
@harness(pre=["(0 <= gap) & (gap <= 3) & (1 <= t0) & (t0 <= 3) & (1 <= t1) & (t1 <= 3) & (1 <= t2) & (t2 <= 3) & (1 <= t3) & (t3 <= 3)",
              "0 <= ackat <= 4"], post="_", timeout=400, covers=COVERS,
         note="retransmission cadence: two reliable injections `gap` in 0..3 s apart (either direction each), then four timer runs "
              "1..3 s apart (all solver-chosen) with an acknowledgement of the first injection arriving before timer run `ackat` "
              "(or never): at every timer run EXACTLY the unacknowledged injections whose last transmission is at least the "
              "configured 3 s ago are re-sent, each once, same id, RELIABLE+RESENT, in injection order; an acknowledged one is "
              "never re-sent and its completion signal has fired; the other's has not")
def resend_cadence(d0: bool, d1: bool, gap: int, t0: int, t1: int, t2: int, t3: int, ackat: int) -> bool:
    f = px.reset([])
    every = f.circuit.resend_every
    dirs = [OUT if d0 else IN, OUT if d1 else IN]
    gap, ackat = small(gap, 0, 3), small(ackat, 0, 4)
    ticks = [small(t, 1, 3) for t in (t0, t1, t2, t3)]
    pend = []                      # [direction, wire id, last sent, future, acked]
    for i, d in enumerate(dirs):
        if i == 1:
            px.Clock.now_s += gap
        before = len(f.rec.sent)
        msg = Message("ChatFromViewer" if d is OUT else "ChatFromSimulator", Block("ChatData", fill_missing=True), direction=d,
                      flags=REL)
        fut = f.circuit.send_reliable(msg)
        new = f.rec.sent[before:]
        if len(new) != 1:
            return False
        pend.append([d, new[0][0].packet_id, px.Clock.now_s, fut, False])
    for n, dt_ in enumerate(ticks):
        if ackat == n:
            # the other side acknowledges the first injection (a standalone PacketAck travelling the opposite way)
            d, wire = pend[0][0], pend[0][1]
            ack = Message("PacketAck", Block("Packets", ID=wire), packet_id=500 + n, direction=IN if d is OUT else OUT)
            px.inject_packet(ack, outgoing=(ack.direction is OUT))
            pend[0][4] = True
        px.Clock.now_s += dt_
        before = len(f.rec.sent)
        f.circuit.resend_unacked()
        got = [(x[0].direction, x[0].packet_id, x[0].flags & (REL | RESENT)) for x in f.rec.sent[before:]]
        exp = []
        for p_ in pend:
            if not p_[4] and px.Clock.now_s - p_[2] >= every:
                exp.append((p_[0], p_[1], REL | RESENT))
                p_[2] = px.Clock.now_s
        if got != exp:
            return False
    return pend[0][3].done() == pend[0][4] and not pend[1][3].done()


EVIDENCE = {
    "bounds": "event sequences of length 3 (quick) / 4 (thorough) from the initial circuit state over 10 event kinds (incl. PacketAck "
              "with one body id, one body id + one appended ack, two body ids), direction symbolic per event, acknowledged id(s) "
              "chosen symbolically among the wire ids the sender has received (two-id forms: every ordered pair of cyclically "
              "adjacent received ids, which is all ordered pairs when two ids were received)",
    "outside": "longer histories, acknowledgement packets naming more than two ids or the same id twice, tracker windows beyond a handful of injections (C04 covers the tracker for windows <= 4 from "
               "arbitrary states), out-of-order endpoint ids, StartPingCheck rewriting; byte codec (snapshot serializer)",
    "assumptions": ["endpoints number their packets 1,2,3,... and only acknowledge ids they have received"],
}
