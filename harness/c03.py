"""C03 — zero-coding: lossless, bounded, canonical."""
from typing import List
from vlib.harness import harness
from hippolyzer.lib.base.message.udpserializer import UDPMessageSerializer
from hippolyzer.lib.base.message.udpdeserializer import UDPMessageDeserializer

compress = UDPMessageSerializer.zero_code_compress
expand = UDPMessageDeserializer.zero_code_expand


def canonical(out: bytes) -> bool:
    """every 0x00 is immediately followed by a count in 1..255 (so never by 0x00 / EOF)."""
    i = 0
    n = len(out)
    while i < n:
        if out[i] == 0:
            if i + 1 >= n or out[i + 1] == 0:
                return False
            i += 2
        else:
            i += 1
    return True


def ref_expand(data: bytes) -> bytes:
    """Reference semantics of the format (LL's decoder): 00 n -> n zeros; 00 00 n -> 256+n zeros
    (wrap, repeatable); input ending inside a run leaves what the run is worth so far
    (a lone trailing 00 is one zero, `00 00` at EOF is 1+256 zeros)."""
    out = bytearray()
    i = 0
    n = len(data)
    while i < n:
        c = data[i]
        i += 1
        if c != 0:
            out.append(c)
            continue
        run = 1
        while True:
            if i >= n:
                break
            c = data[i]
            i += 1
            if c == 0:
                run += 256
                continue
            run += c - 1
            break
        out.extend(b"\x00" * run)
    return bytes(out)


@harness(pre=["len(data) <= 5"], post="_",
         note="all byte strings of length <=5: expand(compress(d)) == d and compress(d) canonical",
         covers=("hippolyzer.lib.base.message.udpserializer:UDPMessageSerializer.zero_code_compress", "hippolyzer.lib.base.message.udpdeserializer:UDPMessageDeserializer.zero_code_expand"))
def whole_roundtrip(data: bytes) -> bool:
    enc = bytes(compress(data))
    return bytes(expand(enc)) == data and canonical(enc) and len(enc) <= 2 * len(data)


@harness(pre=["len(data) <= 3"], post="_", timeout=300,
         note="all byte strings of length <=3 (also non-canonical): decoder == reference decoder",
         covers=("hippolyzer.lib.base.message.udpdeserializer:UDPMessageDeserializer.zero_code_expand",))
def whole_decoder_vs_reference(data: bytes) -> bool:
    return bytes(expand(data)) == ref_expand(data)


# ---------------------------------------------------------------------------------------
# Engine C: one-step lemmas over the real loop bodies (all lengths by induction)
# ---------------------------------------------------------------------------------------
from vlib.loopstate import parameterize  # noqa: E402

_ENC = "hippolyzer.lib.base.message.udpserializer:UDPMessageSerializer.zero_code_compress"
_DEC = "hippolyzer.lib.base.message.udpdeserializer:UDPMessageDeserializer.zero_code_expand"

# enc_step(data, z0, final) -> (emitted, z1);  dec_step(buf, in_zero0, out0, final) -> (out, in_zero1, out)
SHAPE_PROBLEM = None
try:
    enc_step = parameterize(compress, ["zero_count"])
    dec_step = parameterize(expand, ["in_zero", "decode_buf"])
except Exception as _e:      # vlib.loopstate.ShapeChanged: the loops are no longer left folds over the input with this state
    # The inductive lemmas are regenerated from the live loop bodies; when the code is restructured they cannot be.
    # The lemmas are then reported as inconclusive (obligations() below) and only the whole-function obligations decide.
    SHAPE_PROBLEM = repr(_e)
    enc_step = dec_step = None


def owed(z: int) -> int:
    """zeros the encoder has consumed but the decoder has not yet produced (the marker byte
    already stands for one of them)."""
    return z - 1 if z > 0 else 0


def _canon_step(z: int, out, z2: int) -> bool:
    pending = z > 0
    for byte in out:
        if pending:
            if byte == 0:
                return False
            pending = False
        elif byte == 0:
            pending = True
    return pending == (z2 > 0)


@harness(pre=["0 <= z <= 254", "0 <= b <= 255"], post="_",
         note="L1+L2 encoder step from ANY state z in [0,254] on ANY byte: invariant 0<=z'<=254 kept, "
              "<=2 bytes emitted, every 0x00 marker is followed by a count in 1..255 (never 00 00), "
              "marker pending <=> z'>0", covers=(_ENC,))
def L12_encoder_step(z: int, b: int) -> bool:
    out, z2 = enc_step([b], z, False)
    return 0 <= z2 <= 254 and len(out) <= 2 and _canon_step(z, out, z2)


@harness(pre=["0 <= z <= 254", "0 <= b <= 255"], post="_",
         note="L3 coupled step: the bytes one encoder step emits from state z, fed to the real decoder "
              "step in state in_zero=(z>0), produce exactly owed(z)+[b]-owed(z') and leave in_zero'=(z'>0)",
         covers=(_ENC, _DEC))
def L3_coupled_step(z: int, b: int) -> bool:
    out, z2 = enc_step([b], z, False)
    dec, in_zero2, _ = dec_step(bytes(out), z > 0, bytearray(), False)
    return in_zero2 == (z2 > 0) and bytes(dec) + b"\x00" * owed(z2) == b"\x00" * owed(z) + bytes([b])


@harness(pre=["0 <= z <= 254"], post="_",
         note="L4 finaliser: from any z the encoder's finaliser emits the owed count; the decoder then "
              "produces the owed zeros and is out of a run; output stays canonical", covers=(_ENC, _DEC))
def L4_finaliser(z: int) -> bool:
    out, z2 = enc_step([], z, True)
    dec, in_zero2, _ = dec_step(bytes(out), z > 0, bytearray(), True)
    return z2 == 0 and in_zero2 is False and bytes(dec) == b"\x00" * owed(z) and _canon_step(z, out, 0)


@harness(pre=["0 <= c <= 255"], post="_",
         note="L5 decoder step == reference semantics for every (in_zero, byte): literal; 00 starts a run of 1; "
              "00 inside a run adds 256 (wrap); count c closes the run adding c-1", covers=(_DEC,))
def L5_decoder_step_reference(in_zero: bool, c: int) -> bool:
    dec, in_zero2, _ = dec_step([c], in_zero, bytearray(), True)
    if c == 0:
        want, want_state = (256 if in_zero else 1), True
        return in_zero2 is want_state and len(dec) == want and bytes(dec) == b"\x00" * want
    if in_zero:
        return in_zero2 is False and bytes(dec) == b"\x00" * (c - 1)
    return in_zero2 is False and bytes(dec) == bytes([c])


class _LenStub:
    """decode_buf stand-in with a symbolic current length: records growth only."""

    def __init__(self, n):
        self.n = n
        self.grown = 0

    def __len__(self):
        return self.n + self.grown

    def append(self, _b):
        self.grown += 1

    def extend(self, bs):
        self.grown += len(bs)


@harness(pre=["0 <= n <= 0x3000", "0 <= c <= 255"], post="0 <= _ <= 256",
         note="L6a cap: from ANY buffer length n<=0x3000 one decoder step grows the buffer by at most 256 bytes "
              "(so the buffer never exceeds 0x3000+256)", covers=(_DEC,))
def L6a_growth_bound(n: int, in_zero: bool, c: int) -> int:
    stub = _LenStub(n)
    dec_step([c], in_zero, stub, True)
    return stub.grown


@harness(pre=["n > 0x3000", "0 <= c <= 255"], post="_",
         note="L6b cap: with ANY buffer length n>0x3000 at the loop head the decoder refuses (ValueError) "
              "before appending anything", covers=(_DEC,))
def L6b_refuses_over_cap(n: int, in_zero: bool, c: int) -> bool:
    stub = _LenStub(n)
    try:
        dec_step([c], in_zero, stub, True)
    except ValueError:
        return stub.grown == 0
    return False


# ---------------------------------------------------------------------------------------
# Whole-function obligations on long runs (independent of how the loops are written)
# ---------------------------------------------------------------------------------------
def _untraced(fn):
    import sys
    if "crosshair.tracers" in sys.modules:
        from crosshair.tracers import NoTracing, is_tracing
        if is_tracing():
            with NoTracing():
                return fn()
    return fn()


def small(x, lo, hi):
    for v in range(lo, hi + 1):
        if x == v:
            return v
    raise AssertionError("selector out of range")


_LITS = [b"", b"\x01", b"\xff", b"\x00"]


@harness(pre=["(0 <= n) & (n <= 520)", "0 <= m <= 2", "(0 <= a) & (a <= 3)"], post="_", timeout=600,
         note="whole functions on long zero runs: lit_a + 0^n + lit_b + 0^m' + lit_a for EVERY n in 0..520 (so every wrap "
              "boundary 255, 256, 510, 511), m' in {0, 255, 256}, 4 literal pairs from {none, 01, ff, 00} (all solver-chosen; the loops "
              "run outside the tracer on the chosen input): expand(compress(d)) == d, the encoding is canonical, never "
              "longer than 2 x input and the reference decoder agrees", covers=(_ENC, _DEC))
def long_runs_roundtrip(n: int, m: int, a: int) -> bool:
    n = small(n, 0, 520)
    m2 = [0, 255, 256][small(m, 0, 2)]
    a = small(a, 0, 3)
    la, lb = _LITS[a], _LITS[(a + 1) % 4]

    def go():
        d = la + b"\x00" * n + lb + b"\x00" * m2 + la
        enc = bytes(compress(d))
        return bytes(expand(enc)) == d and canonical(enc) and len(enc) <= 2 * len(d) and ref_expand(enc) == d
    return _untraced(go)


@harness(pre=["(0 <= k) & (k <= 60)", "(0 <= ci) & (ci <= 4)", "(0 <= lead) & (lead <= 2)"], post="_", timeout=600,
         note="decoder allocation bound on whole inputs: `lead` literal bytes, then a zero marker followed by k wrap "
              "continuations (00 00^k) and a count byte c in {1, 2, 128, 254, 255}, then one more literal or the end of the input (k in 0..60, solver-chosen): the "
              "decoder either returns exactly what the reference semantics give, never more than 0x3000+256+255 bytes, or "
              "refuses with ValueError; it must refuse whenever the reference expansion exceeds 0x3000+256+255 bytes",
         covers=(_DEC,))
def cap_whole(k: int, ci: int, lead: int, tail: bool) -> bool:
    k, c, lead = small(k, 0, 60), [1, 2, 128, 254, 255][small(ci, 0, 4)], small(lead, 0, 2)
    tail = True if tail else False

    def go():
        data = b"\x07" * lead + b"\x00" + b"\x00" * k + bytes([c]) + (b"\x09" if tail else b"")
        want = ref_expand(data)
        limit = 0x3000 + 256 + 255
        try:
            got = bytes(expand(data))
        except ValueError:
            return len(want) > 0x3000          # refusing is only legitimate for expansions beyond the cap
        return got == want and len(got) <= limit
    return _untraced(go)


from vlib.harness import shard  # noqa: E402
shard(long_runs_roundtrip, "m", range(3), ["tail0", "tail255", "tail256"], globals())


def obligations(tier, seed):
    from vlib.main import default_obligations, Ob
    obs = default_obligations("harness.c03", tier)
    if SHAPE_PROBLEM is None:
        return obs
    kept = [o for o in obs if not o.name.startswith("L")]
    kept.append(Ob(name="loop_shape", module="harness.c03", func="loop_shape_status", kind="call", timeout=10, covers=(_ENC, _DEC),
                   note="the one-step lemmas (L12, L3, L4, L5, L6a, L6b) are regenerated from the live loop bodies; the loops "
                        "no longer have the shape the rewriting understands, so the lemmas are INCONCLUSIVE and only the "
                        "whole-function obligations were decided", args={}))
    return kept


def loop_shape_status(exclude=()):
    return {"status": "unknown", "queries": 0, "detail": f"loop shape changed: {SHAPE_PROBLEM}"}


EVIDENCE = {
    "bounds": "step lemmas: every encoder state z in [0,254] x every byte, every decoder state x every byte, every "
              "buffer length (unbounded int); whole-function obligations: every byte string of length <= 5, every zero run "
              "length 0..520 between catalogue literals, every wrap-continuation count 0..60 x count byte against the cap",
    "explanation": "Induction on len(d): the relation R(z,in_zero,dec) := in_zero=(z>0) and dec+0^owed(z)=consumed input "
                   "holds initially (z=0, dec=''), is preserved by every step (L3, with L1 keeping z in the lemma's domain) "
                   "and gives dec=d after the finaliser (L4); so expand(compress(d))==d for every d whose expansion stays "
                   "under the decoder's cap.  Canonicity of the whole output follows from L2 (per-step shape w.r.t. the "
                   "pending-marker state) and L4.  L5 gives agreement with the reference semantics per step for all states, "
                   "L6a/L6b the allocation bound 0x3000+256.  The loop bodies are the repo's own statements re-parsed "
                   "from the live source on every run (vlib.loopstate).",
    "outside": "reference-decoder equivalence on whole inputs is bounded to short strings (per-step equivalence is "
               "unbounded); header peek is covered under C01/C02",
    "assumptions": ["the for-loop of each function is a left fold over its input (checked structurally by vlib.loopstate)"],
}
