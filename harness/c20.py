"""C20 — inventory, asset and transfer codecs round-trip.

Engine A.
  * chunked transfers: the real sender-side chunker (Xfer(data=...)) and the real receiver-side handlers
    (XferManager._handle_send_xfer_packet, TransferManager._handle_transfer_packet) with a symbolic payload and a
    symbolic arrival schedule (order + duplicates): done exactly when every chunk up to the end-marked one has arrived,
    and then the reassembly equals the payload;
  * inventory: items / categories / objects built from solver-chosen field combinations (optional fields absent or
    present, every asset / inventory / folder / sale type, boundary integers) through legacy text, legacy LLSD and AIS
    LLSD, as single nodes and inside an InventoryModel;
  * animations: both format versions, symbolic S32 fields and structure counts, float values on a float32 catalogue;
    one serialise/parse pass must reach a fixed point (version 1.0 quantises) and version 0.1 is exact.
"""
import datetime as dt

from vlib.harness import harness, shard
from vlib.adapt import coerce_bool_dunders, uuid_realizes_bytes, untraced_constructor
import hippolyzer.lib.base.message.message as _message_mod
import hippolyzer.lib.base.serialization as se
import hippolyzer.lib.base.xfer_manager as xfer_mod
import hippolyzer.lib.base.transfer_manager as transfer_mod
import hippolyzer.lib.base.inventory as inv
import hippolyzer.lib.base.llanim as llanim
import hippolyzer.lib.base.templates as tmpls
from hippolyzer.lib.base.datatypes import UUID, Vector3, Quaternion
from hippolyzer.lib.base.message.message import Block, Message
from hippolyzer.lib.base.multidict import OrderedMultiDict
from hippolyzer.lib.base.templates import AssetType, InventoryType, FolderType, SaleType, XferPacket, TransferStatus

coerce_bool_dunders(se)
uuid_realizes_bytes()
_message_mod.maybe_reload_templates = lambda: None
import llsd.base as _llsd_base  # noqa: E402
import llsd.serde_notation as _sn  # noqa: E402
import llsd.serde_binary as _sb  # noqa: E402
untraced_constructor(_llsd_base.LLSDBaseFormatter)
untraced_constructor(_sn.LLSDNotationParser)
untraced_constructor(_sb.LLSDBinaryParser)

_B = "hippolyzer.lib.base."
COVERS = (_B + "xfer_manager:Xfer.__init__", _B + "xfer_manager:Xfer.reassemble_chunks",
          _B + "xfer_manager:XferManager._handle_send_xfer_packet", _B + "transfer_manager:TransferManager._handle_transfer_packet",
          _B + "transfer_manager:Transfer.reassemble_chunks", _B + "inventory:InventoryBase.from_reader",
          _B + "inventory:InventoryBase.to_writer", _B + "inventory:InventoryModel.from_reader",
          _B + "inventory:InventoryModel.from_llsd", _B + "inventory:InventoryItem.to_llsd", _B + "inventory:InventoryItem.from_llsd",
          _B + "inventory:InventoryCategory.to_llsd", _B + "inventory:InventoryCategory.from_llsd",
          _B + "inventory:SchemaFlagField.to_llsd", _B + "inventory:SchemaEnumField.serialize",
          _B + "legacy_schema:SchemaBase.from_llsd", _B + "legacy_schema:SchemaBase.to_llsd",
          _B + "legacy_schema:parse_schema_line", _B + "legacy_schema:SchemaDate.serialize",
          _B + "legacy_schema:SchemaHexInt.serialize", _B + "legacy_schema:SchemaMultilineStr.deserialize",
          _B + "legacy_schema:SchemaLLSD.serialize", _B + "llanim:Animation.to_bytes", _B + "llanim:Animation.from_bytes",
          _B + "llanim:QuantizedTime.encode")


def small(x, lo, hi):
    for v in range(lo, hi + 1):
        if x == v:
            return v
    raise AssertionError("selector out of range")


# ------------------------------------------------------------------------------------------------ chunked transfers
class _Circuit:
    def __init__(self):
        self.sent = []

    def send_reliable(self, msg):
        self.sent.append(msg)

    def send(self, msg):
        self.sent.append(msg)


class _Holder:
    def __init__(self):
        self.circuit = _Circuit()
        self.message_handler = None


def _send_xfer_packet(xid, idx, eof, chunk):
    return Message("SendXferPacket", Block("XferID", ID=xid, Packet_=XferPacket(PacketID=idx, IsEOF=eof)),
                   Block("DataPacket", Data=chunk))


def xfer_run(payload: bytes, schedule, chunk_size) -> bool:
    """sender chunks `payload`; the receiver gets the chunks in `schedule` order (indices, may repeat)"""
    old = xfer_mod.MAX_CHUNK_SIZE
    xfer_mod.MAX_CHUNK_SIZE = chunk_size
    try:
        sender = xfer_mod.Xfer(xfer_id=7, data=payload)
    finally:
        xfer_mod.MAX_CHUNK_SIZE = old
    n = len(sender.chunks)
    if sorted(sender.chunks) != list(range(n)) or n < 1:
        return False
    if any(len(c) > chunk_size or len(c) == 0 for c in sender.chunks.values()):
        return False
    mgr = xfer_mod.XferManager(_Holder())
    recv = xfer_mod.Xfer(xfer_id=7)
    seen = set()
    for idx in schedule:
        if idx >= n:
            return True                    # not a chunk of this transfer: schedule outside the universe
        mgr._handle_send_xfer_packet(_send_xfer_packet(7, idx, idx == n - 1, sender.chunks[idx]), recv)
        seen.add(idx)
        complete = len(seen) == n
        if recv.done() != complete:
            return False
        if complete:
            if bytes(recv.reassemble_chunks()) != payload or recv.expected_size != len(payload):
                return False
    return True


@harness(pre=["len(payload) <= 8", "(0 <= s0) & (s0 <= 3) & (0 <= s1) & (s1 <= 3) & (0 <= s2) & (s2 <= 3) & (0 <= s3) & (s3 <= 3) & "
              "(0 <= s4) & (s4 <= 3)"], post="_", timeout=600, covers=COVERS,
         note="Xfer with the chunk size set to 4 bytes (module constant MAX_CHUNK_SIZE, 1150 in production): ANY payload <= 8 "
              "bytes (1..3 chunks incl. the 4-byte length prefix) x ANY arrival schedule of 5 deliveries (order, duplicates): "
              "the sender's chunks are contiguous and non-empty, the receiver is done exactly when every chunk up to the "
              "end-marked one has arrived, and then the reassembly equals the payload and the announced size its length")
def xfer_assembly_small_chunks(payload: bytes, s0: int, s1: int, s2: int, s3: int, s4: int) -> bool:
    n = len(payload)
    for k in range(9):          # concretize the length (offsets stay concrete), content stays symbolic
        if n == k:
            payload = payload[:k]
            break
    sched = [small(s, 0, 3) for s in (s0, s1, s2, s3, s4)]
    return xfer_run(payload, sched, 4)


XFER_SIZES = [0, 1, 1145, 1146, 1147, 2295, 2296, 2297, 3446, 3447]


@harness(pre=["0 <= si <= 9", "(0 <= s0) & (s0 <= 3) & (0 <= s1) & (s1 <= 3) & (0 <= s2) & (s2 <= 3) & (0 <= s3) & (s3 <= 3) & "
              "(0 <= s4) & (s4 <= 3)"],
         post="_", timeout=600, covers=COVERS,
         note="Xfer with the production chunk size 1150: payload sizes around every chunk boundary (0, 1, 1145..1147, "
              "2295..2297, 3446, 3447 bytes; content a position-dependent pattern) x ANY arrival schedule of 5 deliveries")
def xfer_assembly_real_chunks(si: int, s0: int, s1: int, s2: int, s3: int, s4: int) -> bool:
    size = XFER_SIZES[small(si, 0, 9)]
    sched = [small(s, 0, 3) for s in (s0, s1, s2, s3, s4)]
    return _untraced(lambda: xfer_run(bytes((i * 7 + i // 251) % 256 for i in range(size)), sched, 1150))


@harness(pre=["len(c0) <= 2", "len(c1) <= 2", "len(c2) <= 2", "1 <= n <= 3",
              "(0 <= s0) & (s0 <= 2) & (0 <= s1) & (s1 <= 2) & (0 <= s2) & (s2 <= 2) & (0 <= s3) & (s3 <= 2)"],
         post="_", timeout=600, covers=COVERS,
         note="Transfer (TransferPacket stream): n in 1..3 packets with ANY contents <= 2 bytes each, the last one marked DONE, "
              "x ANY arrival schedule of 4 deliveries (order, duplicates): the transfer is done exactly when every packet up to "
              "the DONE-marked one has arrived, and then the reassembly is the concatenation in packet order")
def transfer_assembly(c0: bytes, c1: bytes, c2: bytes, n: int, s0: int, s1: int, s2: int, s3: int) -> bool:
    n = small(n, 1, 3)
    chunks = [c0, c1, c2][:n]
    tid = UUID("12345678-1234-1234-1234-123456789abc")
    mgr = transfer_mod.TransferManager(_Holder())
    t = transfer_mod.Transfer(tid)
    seen = set()
    for s in (s0, s1, s2, s3):
        idx = small(s, 0, 2)
        if idx >= n:
            return True
        status = TransferStatus.DONE if idx == n - 1 else TransferStatus.OK
        msg = Message("TransferPacket", Block("TransferData", TransferID=tid, ChannelType=2, Packet=idx, Status=int(status),
                                              Data=chunks[idx]))
        mgr._handle_transfer_packet(msg, t)
        seen.add(idx)
        complete = len(seen) == n
        if t.done() != complete:
            return False
        if complete and bytes(t.reassemble_chunks()) != b"".join(bytes(c) for c in chunks):
            return False
    return True


# ------------------------------------------------------------------------------------------------ inventory
U = [UUID("00000000-0000-0000-0000-000000000000"), UUID("11111111-2222-3333-4444-555555555555"),
     UUID("ffffffff-ffff-ffff-ffff-ffffffffffff"), UUID("0a0b0c0d-0e0f-1011-1213-141516171819")]
MASKS = [0, 1, 0x7FFFFFFF, 0x80000000, 0xFFFFFFFF, 0x0008E000]
PRICES = [0, 1, 10, 2**31 - 1, -1, -2**31]
NAMES = ["", "a", "New Script", "trailing space ", "two  spaces", "café 日本", "{", "}", "x" * 63, "inv_item", "0"]
DATES = [0, 1, 1_000_000_000, 2**31 - 1, 1699176600]
METAS = [None, {}, {"a": 1}, {"nested": {"k": [1, 2.5, "s"]}, "u": U[1]}]
ASSET_TYPES = list(AssetType)
INV_TYPES = list(InventoryType)
FOLDER_TYPES = list(FolderType)
SALE_TYPES = list(SaleType)
FORMS = ["text", "legacy_llsd", "ais_llsd", "model_text", "model_legacy_llsd"]


def pick(lst, sel):
    return lst[small(sel, 0, len(lst) - 1)]


def roundtrip_node(node, form):
    cls = type(node)
    if form == 0:
        return cls.from_str(strip_header(node.to_str())), None
    if form == 1:
        return cls.from_llsd(node.to_llsd("legacy"), "legacy"), None
    if form == 2:
        return cls.from_llsd(node.to_llsd("ais"), "ais"), None
    model = inv.InventoryModel()
    model.add(node)
    if form == 3:
        back = inv.InventoryModel.from_str(model.to_str())
    else:
        back = inv.InventoryModel.from_llsd(model.to_llsd("legacy"), "legacy")
    return back.nodes.get(node.node_id), (model, back)


def strip_header(text: str) -> str:
    """a node's own reader expects the caller (the model reader) to have consumed the schema-name line"""
    first, _, rest = text.partition("\n")
    return rest


def check_roundtrip(node, form) -> bool:
    back, models = roundtrip_node(node, form)
    if back is None or back != node:
        return False
    if models is not None:
        model, got = models
        if not (got == model) or len(got.nodes) != 1:
            return False
    return True


def make_permissions(m0, m1, u0):
    return inv.InventoryPermissions(base_mask=pick(MASKS, m0), owner_mask=pick(MASKS, m1), group_mask=pick(MASKS, m0),
                                    everyone_mask=pick(MASKS, m1), next_owner_mask=pick(MASKS, m0), creator_id=pick(U, u0),
                                    owner_id=U[1], last_owner_id=pick(U, u0), group_id=U[0])


def _untraced(fn):
    import sys
    if "crosshair.tracers" in sys.modules:
        from crosshair.tracers import NoTracing, is_tracing
        if is_tracing():
            with NoTracing():
                return fn()
    return fn()


LINK_PERMS = dict(base_mask=0xFFFFFFFF, owner_mask=0xFFFFFFFF, group_mask=0xFFFFFFFF, everyone_mask=0, next_owner_mask=0xFFFFFFFF,
                  creator_id=U[0], owner_id=U[0], last_owner_id=U[0], group_id=U[0])


def build_item(form, at=0, it=0, st=0, m0=0, m1=0, u0=1, pr=0, fl=0, nm=2, ds=1, da=2, me=0, opt=7):
    atype = ASSET_TYPES[at]
    perms = inv.InventoryPermissions(base_mask=MASKS[m0], owner_mask=MASKS[m1], group_mask=MASKS[m0], everyone_mask=MASKS[m1],
                                     next_owner_mask=MASKS[m0], creator_id=U[u0], owner_id=U[1], last_owner_id=U[u0], group_id=U[0])
    sale = inv.InventorySaleInfo(sale_type=SALE_TYPES[st], sale_price=PRICES[pr])
    if form == 2 and atype == AssetType.LINK:
        # AIS represents a link by its target only: permissions and sale info are implied (the documented defaults)
        perms = inv.InventoryPermissions(**LINK_PERMS)
        sale = inv.InventorySaleInfo(sale_type=SaleType.NOT, sale_price=0)
        opt |= 1
    return inv.InventoryItem(
        item_id=U[3], parent_id=U[u0], permissions=perms, asset_id=U[1] if opt & 1 else None,
        shadow_id=None if opt & 1 else U[2], type=atype, inv_type=INV_TYPES[it], flags=MASKS[fl] if opt & 2 else 0,
        sale_info=sale, name=NAMES[nm], desc=NAMES[ds], metadata=METAS[me] if opt & 4 else None,
        creation_date=dt.datetime.utcfromtimestamp(DATES[da]))


ITEM_NOTE = ("InventoryItem through its legacy text form, legacy LLSD, AIS LLSD, and inside an InventoryModel (text, legacy LLSD): "
             "parsing the serialisation yields an equal node / model; solver-chosen: ")


@harness(pre=["0 <= form <= 4", "0 <= at < %d" % len(ASSET_TYPES), "0 <= opt <= 7"], post="_", timeout=600, covers=COVERS,
         note=ITEM_NOTE + "form x EVERY asset type x optional groups (asset id vs shadow id, flags, metadata absent / present)")
def inventory_item_asset_types(form: int, at: int, opt: int) -> bool:
    form, at, opt = small(form, 0, 4), small(at, 0, len(ASSET_TYPES) - 1), small(opt, 0, 7)
    return _untraced(lambda: check_roundtrip(build_item(form, at=at, opt=opt, me=3), form))


@harness(pre=["0 <= form <= 4", "0 <= it < %d" % len(INV_TYPES), "0 <= st <= 3", "0 <= pr <= 5"], post="_", timeout=600,
         covers=COVERS, note=ITEM_NOTE + "form x EVERY inventory type x EVERY sale type x boundary prices")
def inventory_item_inv_sale_types(form: int, it: int, st: int, pr: int) -> bool:
    form, it, st, pr = small(form, 0, 4), small(it, 0, len(INV_TYPES) - 1), small(st, 0, 3), small(pr, 0, 5)
    return _untraced(lambda: check_roundtrip(build_item(form, it=it, st=st, pr=pr), form))


@harness(pre=["0 <= form <= 4", "(0 <= m0) & (m0 <= 5) & (0 <= m1) & (m1 <= 5) & (0 <= u0) & (u0 <= 3) & (0 <= fl) & (fl <= 5)"],
         post="_", timeout=600, covers=COVERS,
         note=ITEM_NOTE + "form x boundary permission masks x boundary flags x creator / parent ids (zero, all ones, mixed)")
def inventory_item_masks(form: int, m0: int, m1: int, u0: int, fl: int) -> bool:
    form, m0, m1, u0, fl = small(form, 0, 4), small(m0, 0, 5), small(m1, 0, 5), small(u0, 0, 3), small(fl, 0, 5)
    return _untraced(lambda: check_roundtrip(build_item(form, m0=m0, m1=m1, u0=u0, fl=fl), form))


@harness(pre=["0 <= form <= 4", "(0 <= nm) & (nm <= 10) & (0 <= ds) & (ds <= 10) & (0 <= me) & (me <= 3) & (0 <= da) & (da <= 4)"],
         post="_", timeout=900, covers=COVERS,
         note=ITEM_NOTE + "form x names x descriptions from a catalogue the viewer permits (empty, spaces inside / trailing, "
                          "non-ASCII, braces, schema keywords, 63 chars) x embedded metadata (absent / empty / flat / nested with a "
                          "UUID) x creation dates")
def inventory_item_text_fields(form: int, nm: int, ds: int, me: int, da: int) -> bool:
    form, nm, ds, me, da = small(form, 0, 4), small(nm, 0, 10), small(ds, 0, 10), small(me, 0, 3), small(da, 0, 4)
    return _untraced(lambda: check_roundtrip(build_item(form, nm=nm, ds=ds, me=me, da=da), form))


@harness(pre=["0 <= form <= 4", "0 <= ft < %d" % len(FOLDER_TYPES), "(0 <= u0) & (u0 <= 3) & (0 <= ve) & (ve <= 3)",
              "0 <= opt <= 3"], post="_", timeout=600, covers=COVERS,
         note="InventoryCategory: form x EVERY folder type x parent ids x versions x owner / metadata absent or present (the "
              "version is LLSD-only by design, so the text forms are compared with it reset)")
def inventory_category(form: int, ft: int, u0: int, ve: int, opt: int) -> bool:
    form, ft, u0, ve, opt = small(form, 0, 4), small(ft, 0, len(FOLDER_TYPES) - 1), small(u0, 0, 3), small(ve, 0, 3), small(opt, 0, 3)

    def go():
        version = [-1, 0, 1, 2**31 - 1][ve]
        if form in (0, 3):
            version = inv.InventoryCategory.VERSION_NONE        # llsd_only field
        cat = inv.InventoryCategory(cat_id=U[3], parent_id=U[u0], type=AssetType.CATEGORY, pref_type=FOLDER_TYPES[ft],
                                    name="Folder", owner_id=U[1] if opt & 1 else None, version=version,
                                    metadata=METAS[2] if opt & 2 else None)
        return check_roundtrip(cat, form)
    return _untraced(go)


@harness(pre=["0 <= form <= 4", "(0 <= nm) & (nm <= 10) & (0 <= me) & (me <= 3)"], post="_", timeout=600, covers=COVERS,
         note="InventoryCategory: form x names x metadata from the catalogues")
def inventory_category_text_fields(form: int, nm: int, me: int) -> bool:
    form, nm, me = small(form, 0, 4), small(nm, 0, 10), small(me, 0, 3)

    def go():
        cat = inv.InventoryCategory(cat_id=U[3], parent_id=U[0], type=AssetType.CATEGORY, pref_type=FolderType.NONE,
                                    name=NAMES[nm], owner_id=U[1], metadata=METAS[me])
        return check_roundtrip(cat, form)
    return _untraced(go)


@harness(pre=["form in (0, 1, 3, 4)", "0 <= at < %d" % len(ASSET_TYPES), "0 <= u0 <= 3"], post="_", timeout=600, covers=COVERS,
         note="InventoryObject (task inventory root): text / legacy LLSD, alone and inside a model x EVERY asset type x parent ids")
def inventory_object_types(form: int, at: int, u0: int) -> bool:
    form, at, u0 = small(form, 0, 4), small(at, 0, len(ASSET_TYPES) - 1), small(u0, 0, 3)
    return _untraced(lambda: check_roundtrip(inv.InventoryObject(obj_id=U[3], parent_id=U[u0], type=ASSET_TYPES[at], name="Object",
                                                                 metadata=None), form))


@harness(pre=["form in (0, 1, 3, 4)", "(0 <= nm) & (nm <= 10) & (0 <= me) & (me <= 3)"], post="_", timeout=600, covers=COVERS,
         note="InventoryObject: text / legacy LLSD, alone and inside a model x names x metadata from the catalogues")
def inventory_object_text_fields(form: int, nm: int, me: int) -> bool:
    form, nm, me = small(form, 0, 4), small(nm, 0, 10), small(me, 0, 3)
    return _untraced(lambda: check_roundtrip(inv.InventoryObject(obj_id=U[3], parent_id=U[0], type=AssetType.OBJECT,
                                                                 name=NAMES[nm], metadata=METAS[me]), form))


@harness(pre=["(0 <= base) & (base < 2**32) & (0 <= owner) & (owner < 2**32) & (0 <= flags) & (flags < 2**32)",
              "(-2**31 <= price) & (price < 2**31)", "flavor in (0, 1)"], post="_", timeout=300, covers=COVERS,
         note="InventoryItem through legacy LLSD and AIS LLSD with SYMBOLIC integers: ANY U32 permission masks and flags and ANY "
              "S32 sale price survive to_llsd/from_llsd (flags travel as 4 big-endian bytes in the legacy flavour)")
def inventory_item_llsd_symbolic(base: int, owner: int, flags: int, price: int, flavor: int) -> bool:
    fl = "legacy" if flavor == 0 else "ais"
    perms = inv.InventoryPermissions(base_mask=base, owner_mask=owner, group_mask=0, everyone_mask=0, next_owner_mask=base,
                                     creator_id=U[1], owner_id=U[1], last_owner_id=U[1], group_id=U[0])
    item = inv.InventoryItem(item_id=U[3], parent_id=U[2], permissions=perms, asset_id=U[1], type=AssetType.OBJECT,
                             inv_type=InventoryType.OBJECT, flags=flags,
                             sale_info=inv.InventorySaleInfo(sale_type=SaleType.COPY, sale_price=price), name="n", desc="d",
                             creation_date=dt.datetime.utcfromtimestamp(1_000_000_000))
    back = inv.InventoryItem.from_llsd(item.to_llsd(fl), fl)
    return back == item


@harness(pre=["0 <= which <= 3", "(0 <= i) & (i < 64)"], post="_", timeout=300, covers=COVERS,
         note="lookup-name enums: for every member of AssetType / InventoryType / FolderType / SaleType, "
              "from_lookup_name(to_lookup_name(m)) is m, and names are unique per enum")
def lookup_names(which: int, i: int) -> bool:
    enum_cls = [AssetType, InventoryType, FolderType, SaleType][small(which, 0, 3)]
    members = list(enum_cls)
    i = small(i, 0, 63)
    if i >= len(members):
        return True
    m = members[i]
    name = m.to_lookup_name()
    if enum_cls.from_lookup_name(name) is not m:
        return False
    return all(o is m or o.to_lookup_name() != name for o in members)


# ------------------------------------------------------------------------------------------------ animations
F32S = [0.0, 1.0, 0.5, -0.25, 3.0, 1.5]          # exactly representable in float32


def make_anim(version, prio, loop, jprio, nj, nrot, npos, ncon, fsel, dsel):
    joints = OrderedMultiDict()
    dur = [1.0, 2.0, 0.5][dsel]
    for j in range(nj):
        rots = [llanim.RotKeyframe(time=[0.0, dur][k % 2], rot=Quaternion(0.0, 0.0, 0.0, 1.0)) for k in range(nrot)]
        poss = [llanim.PosKeyframe(time=[0.0, dur][k % 2], pos=Vector3(F32S[fsel], 0.0, -0.25)) for k in range(npos)]
        joints.add(["mPelvis", "mTorso"][j], llanim.Joint(priority=jprio, rot_keyframes=rots, pos_keyframes=poss))
    cons = [llanim.Constraint(chain_length=1, type=llanim.ConstraintType.PLANE, source_volume="mHead", source_offset=Vector3(0.0, 0.5, 1.0),
                              target_volume="GROUND", target_offset=Vector3(0.0, 0.0, 0.0), target_dir=Vector3(0.0, 0.0, 1.0),
                              ease_in_start=0.0, ease_in_stop=0.5, ease_out_start=1.0, ease_out_stop=1.5) for _ in range(ncon)]
    major, minor = (1, 0) if version else (0, 1)
    return llanim.Animation(major_version=major, minor_version=minor, base_priority=prio, duration=dur, emote_name="",
                            loop_in_point=0.0, loop_out_point=dur, loop=loop, ease_in_duration=0.5, ease_out_duration=0.5,
                            hand_pose=llanim.HandPose.RELAXED, joints=joints, constraints=cons)


def anim_check(a, version, prio, loop, jprio) -> bool:
    data = a.to_bytes()
    b = llanim.Animation.from_bytes(data)
    if b.base_priority != prio or b.loop != loop or list(b.joints.keys()) != list(a.joints.keys()):
        return False
    if [j.priority for j in b.joints.values()] != [jprio] * len(a.joints) or len(b.constraints) != len(a.constraints):
        return False
    if [(len(j.rot_keyframes), len(j.pos_keyframes)) for j in b.joints.values()] != \
            [(len(j.rot_keyframes), len(j.pos_keyframes)) for j in a.joints.values()]:
        return False
    if not version and b != a:
        return False
    data2 = b.to_bytes()
    c = llanim.Animation.from_bytes(data2)
    return c == b and bytes(c.to_bytes()) == bytes(data2)


ANIM_INTS = [0, 1, -1, 2**31 - 1, -2**31, 4]


@harness(pre=["(0 <= pi) & (pi <= 5)",
              "(0 <= nj) & (nj <= 2) & (0 <= nrot) & (nrot <= 2) & (0 <= npos) & (npos <= 2) & (0 <= ncon) & (ncon <= 1)",
              "(0 <= fsel) & (fsel <= 2) & (0 <= dsel) & (dsel <= 2)"], post="_", timeout=900, covers=COVERS,
         note="Animation, both format versions x 0..2 joints x 0..2 rotation and position keyframes x 0..1 constraints x boundary "
              "S32 priorities / loop flags x positions and durations from a float32 catalogue (all solver-chosen): version 0.1 "
              "(plain floats) parses back to an EQUAL animation; version 1.0 (U16-quantised) reaches after one serialise/parse "
              "pass a fixed point whose bytes are stable; structure, names and integers survive exactly in both")
def animation_structure(version: bool, pi: int, nj: int, nrot: int, npos: int, ncon: int, fsel: int, dsel: int) -> bool:
    version = True if version else False
    prio = ANIM_INTS[small(pi, 0, 5)]
    loop = ANIM_INTS[5 - small(pi, 0, 5)]
    nj, nrot, npos, ncon, fsel, dsel = small(nj, 0, 2), small(nrot, 0, 2), small(npos, 0, 2), small(ncon, 0, 1), \
        [0, 3, 4][small(fsel, 0, 2)], small(dsel, 0, 2)
    return _untraced(lambda: anim_check(make_anim(version, prio, loop, prio, nj, nrot, npos, ncon, fsel, dsel), version, prio, loop,
                                        prio))


@harness(pre=["(-2**31 <= prio) & (prio < 2**31) & (-2**31 <= loop) & (loop < 2**31) & (-2**31 <= jprio) & (jprio < 2**31)"],
         post="_", timeout=600, covers=COVERS,
         note="Animation, both versions, one joint with one rotation keyframe: ANY S32 base priority / loop flag / joint priority "
              "(symbolic) survives serialise-then-parse exactly")
def animation_symbolic_ints(version: bool, prio: int, loop: int, jprio: int) -> bool:
    a = make_anim(version, prio, loop, jprio, 1, 1, 0, 0, 0, 0)
    b = llanim.Animation.from_bytes(a.to_bytes())
    return b.base_priority == prio and b.loop == loop and [j.priority for j in b.joints.values()] == [jprio]


# ------------------------------------------------------------------------------------------------ mesh segment trees
import hippolyzer.lib.base.mesh as mesh_mod  # noqa: E402
from copy import deepcopy  # noqa: E402


def _mesh_dump(m, **kw):
    w = se.BufferWriter("!")
    w.write(mesh_mod.LLMeshSerializer(**kw), m)
    return w.copy_buffer()


def _mesh_load(data, **kw):
    return se.BufferReader("!", data).read(mesh_mod.LLMeshSerializer(**kw))


_MESH_BASE = []


def mesh_base():
    if not _MESH_BASE:
        # one trip through the codec puts the triangle's coordinates on the U16 quantisation grid (C10's subject)
        _MESH_BASE.append(_mesh_load(_mesh_dump(mesh_mod.MeshAsset.make_triangle())))
    return deepcopy(_MESH_BASE[0])


LOD_NAMES = ["lowest_lod", "low_lod", "medium_lod"]


@harness(pre=["(0 <= l0) & (l0 <= 3) & (0 <= l1) & (l1 <= 3) & (0 <= l2) & (l2 <= 3)"], post="_", timeout=600, covers=COVERS + (
         _B + "mesh:LLMeshSerializer.serialize", _B + "mesh:LLMeshSerializer.deserialize", _B + "mesh:SegmentSerializer.serialize"),
         note="mesh assets, segment trees: the library's triangle (high LOD, physics mesh, convex hull) plus each of lowest / low / "
              "medium LOD absent, populated, 'NoGeometry' or present-but-empty, skin and havok segments absent or empty, raw "
              "segment bytes kept or not (all solver-chosen; zlib / numpy / binary LLSD are C, so the codec runs on the chosen "
              "tree outside the tracer): parse(serialise(mesh)) has equal segments and a second pass is byte-stable")
def mesh_segment_trees(l0: int, l1: int, l2: int, skin: bool, havok: bool, raw: bool) -> bool:
    sel = [small(l0, 0, 3), small(l1, 0, 3), small(l2, 0, 3)]
    skin, havok, raw = (True if skin else False), (True if havok else False), (True if raw else False)

    def go():
        m = mesh_base()
        lod = m.segments["high_lod"]
        for name, st in zip(LOD_NAMES, sel):
            if st:
                m.header[name] = {"offset": 0, "size": 0}
                m.segments[name] = [deepcopy(lod), [{"NoGeometry": True}], []][st - 1] if st != 1 else deepcopy(lod)
        if skin:
            m.header["skin"] = {"offset": 0, "size": 0}
            m.segments["skin"] = {}
        if havok:
            m.header["physics_havok"] = {"offset": 0, "size": 0}
            m.segments["physics_havok"] = {}
        data = _mesh_dump(m)
        back = _mesh_load(data, include_raw_segments=raw)
        if back.segments != m.segments or set(back.header) != set(m.header):
            return False
        if raw:
            # dropping the parsed form of a segment falls back to its raw bytes
            back2 = deepcopy(back)
            back2.segments.pop("high_lod")
            again = _mesh_load(_mesh_dump(back2, include_raw_segments=True))
            if again.segments["high_lod"] != m.segments["high_lod"]:
                return False
        return bytes(_mesh_dump(back)) == bytes(data)
    return _untraced(go)


def kf_ensemble_name(which, i) -> bool:
    """known finding: FolderType.ENSEMBLE_START and ENSEMBLE_END share the legacy name 'ensemble' (as in the reference viewer)"""
    if which != 2:
        return False
    members = list(FolderType)
    return i < len(members) and members[i] in (FolderType.ENSEMBLE_START, FolderType.ENSEMBLE_END)


def kf_ensemble_category(form, ft) -> bool:
    return form != 2 and FOLDER_TYPES[ft] is FolderType.ENSEMBLE_START


def obligations(tier, seed):
    from vlib.main import default_obligations
    return default_obligations("harness.c20", tier)


EVIDENCE = {
    "bounds": "transfers: payload <= 8 bytes with chunk size 4 (3 chunks) and boundary sizes with the real chunk size, schedules of "
              "5 (xfer) / 4 (transfer) deliveries; inventory: one node per model, catalogue values; animations: <= 2 joints x 2+2 "
              "keyframes x 1 constraint",
    "outside": "mesh geometry values (zlib + numpy + binary LLSD are C code: nothing symbolic would survive; the quantised arrays "
               "are C10's subject; only the segment-tree structure is explored); wearables; names containing '|', tabs, line breaks or leading whitespace (not representable in the "
               "line-oriented legacy format; the viewer sanitises them); multi-node models beyond one node; floats off the float32 "
               "catalogue; schedules that deliver a packet index beyond the end-marked one",
    "assumptions": ["integers rendered into the text form are realized by StringIO (C), so text-form integers come from boundary "
                    "catalogues; the LLSD forms carry symbolic integers"],
}
