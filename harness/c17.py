"""C17 — event queue: no event lost, duplicated or reordered; injections delivered once.

Engine A: all poll histories up to a depth bound (symbolic per poll: ack id incl. stale re-poll, upstream status,
number of simulator events, which of them an addon swallows, whether the proxy injects an event before the poll)
through the real MITMProxyEventManager request/response handlers and EventQueueManager, against a sequence model.
"""
from vlib.harness import harness, shard
from harness import proxyfix as px
from harness import httpfix as hx
from harness.proxyfix import small
from hippolyzer.lib.base import llsd
from mitmproxy.http import HTTPFlow
from mitmproxy.test import tutils

_P = "hippolyzer.lib.proxy."
COVERS = (_P + "http_event_manager:MITMProxyEventManager._handle_request", _P + "http_event_manager:MITMProxyEventManager._handle_response",
          _P + "http_event_manager:MITMProxyEventManager._handle_eq_event", _P + "region:EventQueueManager.inject_event",
          _P + "region:EventQueueManager.take_injected_events", _P + "region:EventQueueManager.cache_last_poll_response",
          _P + "region:EventQueueManager.get_cached_poll_response", "hippolyzer.lib.client.state:BaseClientSession.register_region")

EQ_URL_PATH = "/eq"


class Swallower:
    """addon whose handle_eq_event swallows the events whose tag is in `tags`"""
    def __init__(self):
        self.tags = set()
        self.seen = []

    def handle_eq_event(self, session, region, event):
        self.seen.append(event["body"].get("tag"))
        if event["body"].get("tag") in self.tags:
            return True
        return None


def ev(tag):
    return {"message": "FakeEvent", "body": {"tag": tag}}


def announce(tag, port):
    return {"message": "EstablishAgentCommunication",
            "body": {"tag": tag, "sim-ip-and-port": f"127.0.0.1:{port}", "seed-capability": f"https://test.localhost:4/n{port}",
                     "agent-id": str(px.SESSION.agent_id)}}


def poll(ctx, mgr, ack, status, events):
    """one viewer poll through the real request + (if not served from cache) response handlers; returns the body the
    viewer receives (parsed) and whether it was served by the proxy itself"""
    flow = hx.make_flow(url_host="sim.example", path=EQ_URL_PATH, content=hx.xml({"ack": ack, "done": False}))
    hx.pump(mgr, ctx, "request", flow)
    back = hx.drain(ctx.to_proxy_queue)
    if len(back) != 1:
        return None, None
    f2 = HTTPFlow.from_state(back[0][2])
    if f2.response is not None:
        return llsd.parse_xml(f2.response.content), True
    body = hx.xml({"id": ack + 1, "events": events}) if status == 200 else b"upstream error"
    f2.response = tutils.tresp(content=body, status_code=status)
    hx.pump(mgr, ctx, "response", f2)
    back = hx.drain(ctx.to_proxy_queue)
    if len(back) != 1:
        return None, None
    f3 = HTTPFlow.from_state(back[0][2])
    if status != 200:
        return ("raw", f3.response.content), False
    return llsd.parse_xml(f3.response.content), False


def run(polls):
    sw = Swallower()
    f = px.reset([sw])
    ctx, mgr = hx.fresh_http()
    region = px.REGION
    region.caps.clear()
    from hippolyzer.lib.proxy.caps import CapType
    region.caps["Seed"] = (CapType.NORMAL, "https://test.localhost:4/foo")
    region.register_cap("EventQueueGet", "https://sim.example" + EQ_URL_PATH)
    region.eq_manager.clear()
    n_regions0 = len(px.SESSION.regions)
    next_tag = [0]
    delivered = []          # tags the viewer received, in order (excluding replays of a repeated ack)
    expected = []           # tags the viewer must have received
    pending_inj = []
    last_ack = None
    last_body = None
    announced = 0
    ack = 0
    for (stale, status_i, k, swallow_mask, inject, ann) in polls:
        status = [200, 499, 502][status_i]
        if inject:
            tag = next_tag[0]
            next_tag[0] += 1
            region.eq_manager.inject_event(ev(tag))
            pending_inj.append(tag)
        if stale and last_ack is not None:
            use_ack = last_ack
        else:
            ack += 1
            use_ack = ack
        events = []
        tags = []
        for i in range(k):
            tag = next_tag[0]
            next_tag[0] += 1
            if ann and i == 0:
                events.append(announce(tag, 14000 + tag))
            else:
                events.append(ev(tag))
            tags.append(tag)
        sw.tags = set(t for i, t in enumerate(tags) if swallow_mask & (1 << i))
        body, cached = poll(ctx, mgr, use_ack, status, events)
        if body is None and cached is None:
            return False
        if stale and last_ack is not None and last_body is not None:
            # a repeated ack is answered with the previous response again, nothing new is consumed
            if not cached or body != last_body:
                return False
            continue
        if cached:
            return False
        if status != 200:
            if body != ("raw", b"upstream error"):
                return False
            continue
        keep = [t for t in tags if t not in sw.tags]
        want = keep + pending_inj
        if k == 0 and not pending_inj:
            # a 200 response with an empty event list and nothing to inject is passed through untouched
            if body != {"id": use_ack + 1, "events": []}:
                return False
            last_ack, last_body = use_ack, body
            continue
        if ann and tags and tags[0] not in sw.tags:
            announced += 1
        pending_inj = []
        if not want:
            if body is not None:
                return False      # a response emptied by addons is replaced by the protocol's no-events form (undef)
        else:
            if body is None or [e["body"]["tag"] for e in body["events"]] != want or body["id"] != use_ack + 1:
                return False
        delivered.extend(want)
        expected.extend(want)
        last_ack, last_body = use_ack, body
    # announced regions registered exactly once each
    return len(px.SESSION.regions) == n_regions0 + announced and delivered == expected and len(set(delivered)) == len(delivered)


def decode(p):
    """poll descriptor from one symbolic int in [0, 287]: stale(2) x status(3) x k(3: 0,1,2) x swallow(4) x inject(2) x announce(2)"""
    stale = p % 2
    p //= 2
    status = p % 3
    p //= 3
    k = p % 3
    p //= 3
    sm = p % 4
    p //= 4
    inj = p % 2
    p //= 2
    return (stale == 1, status, k, sm, inj == 1, p % 2 == 1)


@harness(pre=["0 <= p0 < 288", "0 <= p1 < 288", "p0 % 2 == 0"], post="_", timeout=900,
         note="all 2-poll histories: per poll {fresh or repeated ack id} x upstream status {200, 499, 502} x 0..2 simulator "
              "events x any subset swallowed by an addon x proxy injection before the poll x first event announces a new "
              "region: the viewer receives simulator events minus swallowed plus injected ones exactly once and in order in "
              "the next response that carries events, an emptied response becomes LLSD undef, a repeated ack is served the "
              "previous response, non-200 responses pass through, announced regions are registered exactly once",
         covers=COVERS)
def polls2(p0: int, p1: int) -> bool:
    pp0 = decode(small(p0, 0, 287))
    pp1 = decode(small(p1, 0, 287))
    for d in ann_cleanup():
        pass
    return run([pp0, pp1])


def ann_cleanup():
    """drop regions registered by earlier paths (the session object is shared across paths)"""
    keep = [r for r in px.SESSION.regions if r.circuit_addr[1] < 14000]
    px.SESSION.regions[:] = keep
    return ()


@harness(pre=["0 <= p0 < 288", "0 <= p1 < 288", "0 <= p2 < 288", "p0 % 2 == 0"], post="_", timeout=3000, tiers=("thorough",),
         note="all 3-poll histories (thorough tier)", covers=COVERS)
def polls3(p0: int, p1: int, p2: int) -> bool:
    ann_cleanup()
    return run([decode(small(p0, 0, 287)), decode(small(p1, 0, 287)), decode(small(p2, 0, 287))])


shard(polls2, "p0", range(0, 288, 2), [f"first_{i}" for i in range(0, 288, 2)], globals(), quick=range(0, 288, 32))
EVIDENCE = {
    "bounds": "2 polls (quick: 9 of the 144 first-poll shapes x all 288 second polls; thorough: all, and 3 polls), <=2 events "
              "per response, all swallow subsets, injection before any poll, one region-announcing event kind",
    "outside": "LLSD XML bodies are concrete per path (tags are ints embedded in catalogue events); region teardown between "
               "polls; templated (LLSD message) events",
    "assumptions": ["any 200 response counts as 'the next response': injected events also ride on an (unusual) 200 "
                    "response whose event list is empty"],
}
