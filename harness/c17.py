"""C17 — event queue: no event lost, duplicated or reordered; injections delivered once.

Engine A: all poll histories up to a depth bound (symbolic per poll: ack id incl. stale re-poll, upstream status,
number of simulator events, which of them an addon swallows, whether the proxy injects an event before the poll)
through the real MITMProxyEventManager request/response handlers and EventQueueManager, against a sequence model.

Two dedicated families ride on the same real stack:
 * `repoll__*`: the poll that gets repeated carries an unusual ack id (LLSD undef = the very first poll of a queue, 0,
   a negative id, ordinary ids) and its response carried any mix of simulator / swallowed / injected events; the repeat(s)
   must be answered with that response again, must not reach the addons, must not consume a pending injection, and the
   next fresh poll must be forwarded and carry exactly what is still owed.
 * `regions__*`: all sequences of three region-announcing events (EnableSimulator, EstablishAgentCommunication,
   TeleportFinish, CrossedRegion — the templated ones in their LLSD message form) over two simulator addresses, in one
   response / one per poll / one per poll with the viewer opening circuits in between, against an independent
   address -> (handle, seed) model of the session's region list.
"""
from vlib.harness import harness, shard
from harness import proxyfix as px
from harness import httpfix as hx
from harness.proxyfix import small
from hippolyzer.lib.base import llsd
from hippolyzer.lib.base.datatypes import UUID
from mitmproxy.http import HTTPFlow
from mitmproxy.test import tutils

_P = "hippolyzer.lib.proxy."
COVERS = (_P + "http_event_manager:MITMProxyEventManager._handle_request", _P + "http_event_manager:MITMProxyEventManager._handle_response",
          _P + "http_event_manager:MITMProxyEventManager._handle_eq_event", _P + "region:EventQueueManager.inject_event",
          _P + "region:EventQueueManager.take_injected_events", _P + "region:EventQueueManager.cache_last_poll_response",
          _P + "region:EventQueueManager.get_cached_poll_response", "hippolyzer.lib.client.state:BaseClientSession.register_region")

EQ_URL_PATH = "/eq"


class Swallower:
    """addon whose handle_eq_event swallows the events whose tag is in `tags`"""
    def __init__(self):
        self.tags = set()
        self.seen = []

    def handle_eq_event(self, session, region, event):
        self.seen.append(event["body"].get("tag"))
        if event["body"].get("tag") in self.tags:
            return True
        return None


def ev(tag):
    return {"message": "FakeEvent", "body": {"tag": tag}}


def announce(tag, port):
    return {"message": "EstablishAgentCommunication",
            "body": {"tag": tag, "sim-ip-and-port": f"127.0.0.1:{port}", "seed-capability": f"https://test.localhost:4/n{port}",
                     "agent-id": str(px.SESSION.agent_id)}}


def poll(ctx, mgr, ack, status, events):
    """one viewer poll through the real request + (if not served from cache) response handlers; returns the body the
    viewer receives (parsed) and whether it was served by the proxy itself"""
    flow = hx.make_flow(url_host="sim.example", path=EQ_URL_PATH, content=hx.xml({"ack": ack, "done": False}))
    hx.pump(mgr, ctx, "request", flow)
    back = hx.drain(ctx.to_proxy_queue)
    if len(back) != 1:
        return None, None
    f2 = HTTPFlow.from_state(back[0][2])
    if f2.response is not None:
        return llsd.parse_xml(f2.response.content), True
    body = hx.xml({"id": ack + 1, "events": events}) if status == 200 else b"upstream error"
    f2.response = tutils.tresp(content=body, status_code=status)
    hx.pump(mgr, ctx, "response", f2)
    back = hx.drain(ctx.to_proxy_queue)
    if len(back) != 1:
        return None, None
    f3 = HTTPFlow.from_state(back[0][2])
    if status != 200:
        return ("raw", f3.response.content), False
    return llsd.parse_xml(f3.response.content), False



def _fresh_queue(region):
    """per-path reset of the region's event-queue state, constructed directly (NOT through EventQueueManager.clear(), which is
    code under test: a clear() that forgets less must not leak one path's cache into the next path's run)"""
    from hippolyzer.lib.proxy.region import EventQueueManager
    region.eq_manager = EventQueueManager(region)


def run(polls):
    sw = Swallower()
    f = px.reset([sw])
    ctx, mgr = hx.fresh_http()
    region = px.REGION
    region.caps.clear()
    from hippolyzer.lib.proxy.caps import CapType
    region.caps["Seed"] = (CapType.NORMAL, "https://test.localhost:4/foo")
    region.register_cap("EventQueueGet", "https://sim.example" + EQ_URL_PATH)
    _fresh_queue(region)
    n_regions0 = len(px.SESSION.regions)
    next_tag = [0]
    delivered = []          # tags the viewer received, in order (excluding replays of a repeated ack)
    expected = []           # tags the viewer must have received
    pending_inj = []
    last_ack = None
    last_body = None
    announced = 0
    ack = 0
    for (stale, status_i, k, swallow_mask, inject, ann) in polls:
        status = [200, 499, 502][status_i]
        if inject:
            tag = next_tag[0]
            next_tag[0] += 1
            region.eq_manager.inject_event(ev(tag))
            pending_inj.append(tag)
        if stale and last_ack is not None:
            use_ack = last_ack
        else:
            ack += 1
            use_ack = ack
        events = []
        tags = []
        for i in range(k):
            tag = next_tag[0]
            next_tag[0] += 1
            if ann and i == 0:
                events.append(announce(tag, 14000 + tag))
            else:
                events.append(ev(tag))
            tags.append(tag)
        sw.tags = set(t for i, t in enumerate(tags) if swallow_mask & (1 << i))
        body, cached = poll(ctx, mgr, use_ack, status, events)
        if body is None and cached is None:
            return False
        if stale and last_ack is not None and last_body is not None:
            # a repeated ack is answered with the previous response again, nothing new is consumed
            if not cached or body != last_body:
                return False
            continue
        if cached:
            return False
        if status != 200:
            if body != ("raw", b"upstream error"):
                return False
            continue
        keep = [t for t in tags if t not in sw.tags]
        want = keep + pending_inj
        if k == 0 and not pending_inj:
            # a 200 response with an empty event list and nothing to inject is passed through untouched
            if body != {"id": use_ack + 1, "events": []}:
                return False
            last_ack, last_body = use_ack, body
            continue
        if ann and tags and tags[0] not in sw.tags:
            announced += 1
        pending_inj = []
        if not want:
            if body is not None:
                return False      # a response emptied by addons is replaced by the protocol's no-events form (undef)
        else:
            if body is None or [e["body"]["tag"] for e in body["events"]] != want or body["id"] != use_ack + 1:
                return False
        delivered.extend(want)
        expected.extend(want)
        last_ack, last_body = use_ack, body
    # announced regions registered exactly once each
    return len(px.SESSION.regions) == n_regions0 + announced and delivered == expected and len(set(delivered)) == len(delivered)


def decode(p):
    """poll descriptor from one symbolic int in [0, 287]: stale(2) x status(3) x k(3: 0,1,2) x swallow(4) x inject(2) x announce(2)"""
    stale = p % 2
    p //= 2
    status = p % 3
    p //= 3
    k = p % 3
    p //= 3
    sm = p % 4
    p //= 4
    inj = p % 2
    p //= 2
    return (stale == 1, status, k, sm, inj == 1, p % 2 == 1)


@harness(pre=["0 <= p0 < 288", "0 <= p1 < 288", "p0 % 2 == 0"], post="_", timeout=900,
         note="all 2-poll histories: per poll {fresh or repeated ack id} x upstream status {200, 499, 502} x 0..2 simulator "
              "events x any subset swallowed by an addon x proxy injection before the poll x first event announces a new "
              "region: the viewer receives simulator events minus swallowed plus injected ones exactly once and in order in "
              "the next response that carries events, an emptied response becomes LLSD undef, a repeated ack is served the "
              "previous response, non-200 responses pass through, announced regions are registered exactly once",
         covers=COVERS)
def polls2(p0: int, p1: int) -> bool:
    pp0 = decode(small(p0, 0, 287))
    pp1 = decode(small(p1, 0, 287))
    for d in ann_cleanup():
        pass
    return run([pp0, pp1])


def ann_cleanup():
    """drop regions registered by earlier paths (the session object is shared across paths)"""
    keep = [r for r in px.SESSION.regions if r.circuit_addr[1] < 14000]
    px.SESSION.regions[:] = keep
    return ()


@harness(pre=["0 <= p0 < 288", "0 <= p1 < 288", "0 <= p2 < 288", "p0 % 2 == 0"], post="_", timeout=3000, tiers=("thorough",),
         note="all 3-poll histories (thorough tier)", covers=COVERS)
def polls3(p0: int, p1: int, p2: int) -> bool:
    ann_cleanup()
    return run([decode(small(p0, 0, 287)), decode(small(p1, 0, 287)), decode(small(p2, 0, 287))])


shard(polls2, "p0", range(0, 288, 2), [f"first_{i}" for i in range(0, 288, 2)], globals(), quick=range(0, 288, 32))


# ---------------------------------------------------------------------------------------------------------------------
# shared set-up / raw poll (arbitrary ack incl. undef, arbitrary upstream answer)
_BROKEN = ("harness-broken",)


def setup_stack():
    sw = Swallower()
    f = px.reset([sw])
    ctx, mgr = hx.fresh_http()
    region = px.REGION
    region.caps.clear()
    from hippolyzer.lib.proxy.caps import CapType
    region.caps["Seed"] = (CapType.NORMAL, "https://test.localhost:4/foo")
    region.register_cap("EventQueueGet", "https://sim.example" + EQ_URL_PATH)
    _fresh_queue(region)
    ann_cleanup()
    return sw, f, ctx, mgr, region


def poll_raw(ctx, mgr, ack, upstream):
    """one viewer poll acking `ack` (None = LLSD undef); if the proxy forwards it the simulator answers 200 with the
    LLSD value `upstream`.  Returns (body the viewer receives, served by the proxy itself) or (_BROKEN, None)."""
    flow = hx.make_flow(url_host="sim.example", path=EQ_URL_PATH, content=hx.xml({"ack": ack, "done": False}))
    hx.pump(mgr, ctx, "request", flow)
    back = hx.drain(ctx.to_proxy_queue)
    if len(back) != 1:
        return _BROKEN, None
    f2 = HTTPFlow.from_state(back[0][2])
    if f2.response is not None:
        if f2.response.status_code != 200:
            return _BROKEN, None
        return llsd.parse_xml(f2.response.content), True
    f2.response = tutils.tresp(content=hx.xml(upstream), status_code=200)
    hx.pump(mgr, ctx, "response", f2)
    back = hx.drain(ctx.to_proxy_queue)
    if len(back) != 1:
        return _BROKEN, None
    f3 = HTTPFlow.from_state(back[0][2])
    if f3.response.status_code != 200:
        return _BROKEN, None
    return llsd.parse_xml(f3.response.content), False


# ---------------------------------------------------------------------------------------------------------------------
# repeated poll whose ack id is falsy / unusual
# (ack id of the poll that gets repeated, id of its response = ack id of the next fresh poll)
ACK_CHAINS = [(None, 0), (None, 3), (0, 1), (-1, 0), (1, 2)]
ACK_LABELS = ["undef_then_0", "undef_then_3", "0_then_1", "neg1_then_0", "1_then_2"]
# (number of simulator events in the first response, swallow mask over them)
FIRST_SHAPES = [(0, 0), (1, 0), (1, 1), (2, 0), (2, 1), (2, 2), (2, 3)]


def expected_body(resp_id, sim_tags, swallowed, pending):
    """the model's view of what the viewer gets for a forwarded 200 poll"""
    want = [t for t in sim_tags if t not in swallowed] + pending
    if not sim_tags and not pending:
        return {"id": resp_id, "events": []}          # nothing to filter, nothing to add: untouched
    if not want:
        return None                                   # emptied: the protocol's no-events form
    return {"id": resp_id, "events": [ev(t) for t in want]}


def run_repoll(chain, shape, inj_first, reps, inj_mid):
    sw, f, ctx, mgr, region = setup_stack()
    a, id1 = ACK_CHAINS[chain]
    k1, mask1 = FIRST_SHAPES[shape]
    seen_want = []            # simulator event tags the addon must have been shown, in order, each once
    pending = []
    if inj_first:
        region.eq_manager.inject_event(ev(100))
        pending.append(100)
    tags1 = list(range(k1))
    sw.tags = set(t for i, t in enumerate(tags1) if mask1 & (1 << i))
    body, cached = poll_raw(ctx, mgr, a, {"id": id1, "events": [ev(t) for t in tags1]})
    if cached is not False:
        return False                                  # the first poll of a fresh queue is forwarded
    last = expected_body(id1, tags1, sw.tags, pending)
    if body != last:
        return False
    seen_want.extend(tags1)
    if tags1 or pending:
        pending = []
    last_id = id1
    for r in range(reps):
        if inj_mid and r == 0:
            region.eq_manager.inject_event(ev(200))
            pending.append(200)
        # the simulator has moved on: were the repeat forwarded, it would answer with its next batch
        nxt = [50 + r]
        sw.tags = set()
        body, cached = poll_raw(ctx, mgr, a, {"id": id1 + 1 + r, "events": [ev(t) for t in nxt]})
        if cached is None:
            return False
        if last is not None:
            # the viewer lost `last`: it is given again, verbatim; nothing new is consumed
            if not cached or body != last:
                return False
        else:
            # the previous response was the no-events form: nothing to give again, the poll goes to the simulator
            if cached:
                return False
            last = expected_body(id1 + 1 + r, nxt, set(), pending)
            if body != last:
                return False
            seen_want.extend(nxt)
            pending = []
            last_id = id1 + 1 + r
    # the viewer finally got the response and acks its id: forwarded, carries the new event and what is still pending
    body, cached = poll_raw(ctx, mgr, last_id, {"id": last_id + 1, "events": [ev(90)]})
    if cached is not False:
        return False
    if body != expected_body(last_id + 1, [90], set(), pending):
        return False
    seen_want.append(90)
    if region.eq_manager.take_injected_events():
        return False                                  # nothing left behind
    return sw.seen == seen_want


@harness(pre=["0 <= chain < 5", "0 <= shape < 7", "1 <= reps <= 2"], post="_", timeout=900,
         note="lost-response histories poll(ack a) ; 1..2 repeats of poll(ack a) ; poll(ack = id just received), with a in "
              "{LLSD undef (first poll of a queue), 0, -1, 1} and response ids {0, 1, 2, 3}: the first response carries 0..2 "
              "simulator events, any subset swallowed, with/without an event injected before it; an event may be injected "
              "before the first repeat.  Every repeat is answered by the proxy with the previous response verbatim "
              "(including injected events that rode on it) whatever the ack value, addons are not shown anything again, "
              "the pending injection is not consumed by a replay; when the previous response was the no-events form the "
              "repeat is forwarded; the next fresh poll is forwarded and carries its event plus exactly the still-pending "
              "injection; addons saw every forwarded simulator event exactly once, in order",
         covers=COVERS)
def repoll(chain: int, shape: int, inj_first: bool, reps: int, inj_mid: bool) -> bool:
    return run_repoll(small(chain, 0, 4), small(shape, 0, 6), bool(inj_first), small(reps, 1, 2), bool(inj_mid))


shard(repoll, "chain", range(5), ACK_LABELS, globals())


def run_teardown(chain, shape, inj_first, rep, inj_after):
    sw, f, ctx, mgr, region = setup_stack()
    a, id1 = ACK_CHAINS[chain]
    k1, mask1 = FIRST_SHAPES[shape]
    pending = []
    if inj_first:
        region.eq_manager.inject_event(ev(100))
        pending.append(100)
    tags1 = list(range(k1))
    sw.tags = set(t for i, t in enumerate(tags1) if mask1 & (1 << i))
    body, cached = poll_raw(ctx, mgr, a, {"id": id1, "events": [ev(t) for t in tags1]})
    if cached is not False or body != expected_body(id1, tags1, sw.tags, pending):
        return False
    last = body
    sw.tags = set()
    if rep and last is not None:
        body, cached = poll_raw(ctx, mgr, a, {"id": id1 + 1, "events": [ev(50)]})
        if not cached or body != last:
            return False
    # the region goes away (DisableSimulator / CloseCircuit / teleport away) and is entered again: a new viewer-side queue
    region.mark_dead()
    if region.circuit is not None:
        region.circuit.is_alive = True
    pending = []
    if inj_after:
        region.eq_manager.inject_event(ev(300))
        pending.append(300)
    body, cached = poll_raw(ctx, mgr, None, {"id": 7, "events": [ev(60)]})
    if cached is not False:
        return False                                  # nothing from before the teardown may be replayed
    if body != expected_body(7, [60], set(), pending):
        return False
    body, cached = poll_raw(ctx, mgr, 7, {"id": 8, "events": [ev(90)]})
    if cached is not False or body != expected_body(8, [90], set(), []):
        return False
    if region.eq_manager.take_injected_events():
        return False
    return sw.seen == tags1 + [60, 90]


@harness(pre=["0 <= chain < 5", "0 <= shape < 7"], post="_", timeout=600,
         note="teardown histories poll(ack a) ; [repeat poll(ack a)] ; region marked dead (real ProxiedRegion.mark_dead) and "
              "re-entered ; poll(ack undef) ; poll(ack 7): for every first ack in {undef, 0, -1, 1} and every first-response "
              "shape (0..2 events, any subset swallowed, with/without injection): the first poll of the re-opened queue is "
              "forwarded to the simulator - nothing cached before the teardown is replayed - and carries exactly the "
              "simulator's new event plus an injection made after the teardown; addons see each simulator event once, in order",
         covers=COVERS + (_P + "region:EventQueueManager.clear", _P + "region:ProxiedRegion.mark_dead"))
def teardown_requeue(chain: int, shape: int, inj_first: bool, rep: bool, inj_after: bool) -> bool:
    return run_teardown(small(chain, 0, 4), small(shape, 0, 6), bool(inj_first), bool(rep), bool(inj_after))


shard(teardown_requeue, "chain", range(5), ACK_LABELS, globals())



# ---------------------------------------------------------------------------------------------------------------------
# region-announcing events: same / different simulator address announced repeatedly
ADDRS = [("10.0.0.8", 15001), ("10.0.0.8", 15002)]            # two simulators on one host: only the port differs
HANDLES = [(256000 << 32) | 256256, (256256 << 32) | 256256]
SEEDS = [["https://sim.example:12043/cap/a-0", "https://sim.example:12043/cap/a-1"],
         ["https://sim.example:12043/cap/b-0", "https://sim.example:12043/cap/b-1"]]
KINDS = ["EnableSimulator", "EstablishAgentCommunication", "TeleportFinish", "CrossedRegion"]
_AGENT = UUID("33333333-3333-3333-3333-333333333333")
_SESS = UUID("11111111-1111-1111-1111-111111111111")


def _ip(ip):
    return bytes(int(p) for p in ip.split("."))


def announce_event(kind, x, s):
    """catalogue event of `kind` announcing address x with seed variant s, in the form the simulator puts on the event
    queue (templated messages in LLSD message form: U64/U32/IPADDR as big-endian binary), built without repo code"""
    ip, port = ADDRS[x]
    h = HANDLES[x].to_bytes(8, "big")
    if kind == 0:
        return {"message": "EnableSimulator", "body": {"SimulatorInfo": [{"Handle": h, "IP": _ip(ip), "Port": port}]}}
    if kind == 1:
        return {"message": "EstablishAgentCommunication",
                "body": {"agent-id": _AGENT, "sim-ip-and-port": f"{ip}:{port}", "seed-capability": SEEDS[x][s]}}
    if kind == 2:
        return {"message": "TeleportFinish",
                "body": {"Info": [{"AgentID": _AGENT, "LocationID": (4).to_bytes(4, "big"), "SimIP": _ip(ip), "SimPort": port,
                                   "RegionHandle": h, "SeedCapability": SEEDS[x][s], "SimAccess": 13,
                                   "TeleportFlags": (0x1000).to_bytes(4, "big")}]}}
    return {"message": "CrossedRegion",
            "body": {"AgentData": [{"AgentID": _AGENT, "SessionID": _SESS}],
                     "RegionData": [{"SimIP": _ip(ip), "SimPort": port, "RegionHandle": h, "SeedCapability": SEEDS[x][s]}],
                     "Info": [{"Position": [1.0, 2.0, 3.0], "LookAt": [1.0, 0.0, 0.0]}]}}


ANN_EVENTS = [[[announce_event(k, x, s) for s in range(2)] for x in range(2)] for k in range(4)]


def regions_view(n0):
    """what the session knows about the regions registered after the first n0"""
    return [(r.circuit_addr, r.handle, r.cap_urls.get("Seed")) for r in px.SESSION.regions[n0:]]


def run_regions(seq, layout):
    """seq: [(kind, address index)] in announcement order; layout 0: all in one response, 1: one per poll, 2: one per poll
    and the viewer opens a circuit to every region announced so far after each poll"""
    sw, f, ctx, mgr, region = setup_stack()
    n0 = len(px.SESSION.regions)
    main_before = [(r.circuit_addr, r.handle, r.cap_urls.get("Seed")) for r in px.SESSION.regions]
    model = {}                # address -> [handle, seed]   (independent model of "registered exactly once")
    order = []                # addresses in order of first announcement
    events = []
    for j, (kind, x) in enumerate(seq):
        s = j % 2                                     # 1st and 3rd announcement share a seed variant, the 2nd differs
        events.append(ANN_EVENTS[kind][x][s])
        addr = ADDRS[x]
        handle = HANDLES[x] if kind != 1 else None    # EstablishAgentCommunication carries no handle
        seed = SEEDS[x][s] if kind != 0 else None     # EnableSimulator carries no seed
        if addr not in model:
            model[addr] = [handle, seed]
            order.append(addr)
        else:
            if handle is not None:
                model[addr][0] = handle
            if seed is not None:
                model[addr][1] = seed
        if layout != 0:
            body, cached = poll_raw(ctx, mgr, j + 1, {"id": j + 2, "events": [events[-1]]})
            if cached is not False or body != {"id": j + 2, "events": [events[-1]]}:
                return False                          # announcing events pass through to the viewer untouched
            if regions_view(n0) != [(a, model[a][0], model[a][1]) for a in order]:
                return False
            if layout == 2:
                for a in order:
                    if not px.SESSION.open_circuit(px.CLIENT, a, f.rec):
                        return False
    if layout == 0:
        body, cached = poll_raw(ctx, mgr, 1, {"id": 2, "events": events})
        if cached is not False or body != {"id": 2, "events": events}:
            return False
    if [(r.circuit_addr, r.handle, r.cap_urls.get("Seed")) for r in px.SESSION.regions[:n0]] != main_before:
        return False
    # one region per announced address, in order of first sighting, knowing the latest handle and seed it was told
    return regions_view(n0) == [(a, model[a][0], model[a][1]) for a in order] and sw.seen == [None] * len(seq)


@harness(pre=["0 <= k0 < 4", "0 <= e1 < 8", "0 <= e2 < 8", "0 <= layout < 3"], post="_", timeout=900,
         note="all sequences of three region-announcing events, each {EnableSimulator, EstablishAgentCommunication, "
              "TeleportFinish, CrossedRegion} x {address A, address B (same host, other port)} (first one for A: the two "
              "addresses are interchangeable), seeds differing between consecutive announcements, delivered {all in one "
              "response, one per poll, one per poll with the viewer opening circuits to the announced regions in between}; "
              "state checked after every poll, so all 1- and 2-event prefixes are covered too: the session holds exactly "
              "one region per announced address, in order of first sighting, carrying the latest handle and seed it was "
              "told about (no circuit needed for the match), the login region is untouched, the events reach the viewer "
              "unchanged and in order",
         covers=COVERS + (_P + "sessions:Session.open_circuit",))
def regions(k0: int, e1: int, e2: int, layout: int) -> bool:
    k0 = small(k0, 0, 3)
    e1 = small(e1, 0, 7)
    e2 = small(e2, 0, 7)
    return run_regions([(k0, 0), (e1 % 4, e1 // 4), (e2 % 4, e2 // 4)], small(layout, 0, 2))


shard(regions, "k0", range(4), KINDS, globals())


EVIDENCE = {
    "bounds": "polls2: 2 polls (quick: 9 of the 144 first-poll shapes x all 288 second polls; thorough: all, and 3 polls), <=2 "
              "events per response, all swallow subsets, injection before any poll, one region-announcing event kind with a "
              "fresh address each time, ack ids >= 1.  repoll: 3-4 polls, repeated ack in {undef, 0, -1, 1}, 1-2 repeats, "
              "<=2 events in the repeated response.  regions: 3 announcing events of 4 kinds over 2 addresses, 3 delivery "
              "layouts, no addon swallowing an announcement (polls2 covers a swallowed single announcement)",
    "outside": "LLSD XML bodies are concrete per path (tags are ints embedded in catalogue events; templated announcing "
               "events are literal LLSD-message-form catalogue entries); region teardown between polls; two addresses "
               "announced with the same seed URL; templated events other than the three announcing ones",
    "assumptions": ["any 200 response counts as 'the next response': injected events also ride on an (unusual) 200 "
                    "response whose event list is empty",
                    "a repeated poll whose previous response was the no-events form (undef) has nothing to be given again "
                    "and is forwarded to the simulator",
                    "a region announced again with a different seed keeps its single region object and the newest seed is "
                    "the one looked up first"],
}

# Engine cost note: CrossHair makes weak references deterministic by running a full gc.collect() on every weakref
# dereference (crosshair.libimpl.weakreflib); the proxy stack dereferences ~10 per poll (cap_data.session(), region(), ...)
# and a full collection of the import-time heap (z3, mitmproxy, templates) costs ~70 ms.  Freezing the objects that exist
# once the harness is imported keeps those collections (and their determinism for everything allocated on a path) but
# makes them scan only what the paths allocate.
import gc  # noqa: E402
gc.collect()
gc.freeze()
