"""C07 — addons cannot duplicate, lose or wedge traffic: at-most-once, fault-isolated.

Engine A: the *fault schedule* is symbolic — a behaviour per addon hook (return values, exceptions including the
non-`Exception` ones asyncio.CancelledError / SystemExit, take, drop, re-send, send a copy, mutate) for up to three
addons plus a session-level subscriber, message direction and reliability — driven through the real
handle_proxied_packet / AddonManager / ProxiedCircuit.  Handler isolation: faulty subscribers on the session message
handler (raising wait_for / subscribe_async predicates, raising bodies, taking futures) against observers and the
proxy's own bookkeeping on the region message handler, and faulty next to well-behaved subscribers on one handler.
"""
import asyncio

from vlib.harness import harness, shard
from harness import proxyfix as px
from harness.proxyfix import small
from hippolyzer.lib.base.message.message import Message, Block
from hippolyzer.lib.base.message.msgtypes import PacketFlags
from hippolyzer.lib.base.network.transport import Direction

_P = "hippolyzer.lib.proxy."
COVERS = (_P + "lludp_proxy:InterceptingLLUDPProxyProtocol.handle_proxied_packet", _P + "addons:AddonManager.handle_lludp_message",
          _P + "addons:AddonManager._call_all_addon_hooks", _P + "addons:AddonManager._call_module_hooks",
          _P + "addons:AddonManager._try_call_hook", _P + "circuit:ProxiedCircuit.prepare_message",
          _P + "circuit:ProxiedCircuit.drop_message", "hippolyzer.lib.base.message.message:Message.take",
          "hippolyzer.lib.base.message.circuit:Circuit.send", "hippolyzer.lib.base.message.message_handler:MessageHandler.handle",
          "hippolyzer.lib.base.events:Event.notify")

NB = 13
BEHAVIOURS = ["return None", "return True", "return 'x'", "raise ValueError", "raise KeyError", "take()", "take(); return True",
              "drop_message()", "circuit.send(original); return True", "circuit.send(take())", "mutate field",
              "raise asyncio.CancelledError", "raise SystemExit"]
# what may come out of a hook that is not an Exception (named one by one: CrossHair steers with BaseException subclasses)
NON_EXCEPTIONS = (asyncio.CancelledError, SystemExit)


class Addon:
    def __init__(self, behaviour):
        self.b = behaviour
        self.calls = 0

    def handle_lludp_message(self, session, region, message):
        self.calls += 1
        b = self.b
        if b == 0:
            return None
        if b == 1:
            return True
        if b == 2:
            return "x"
        if b == 3:
            raise ValueError("addon exploded")
        if b == 4:
            raise KeyError("addon exploded")
        if b == 5:
            message.take()
            return None
        if b == 6:
            message.take()
            return True
        if b == 7:
            region.circuit.drop_message(message)
            return None
        if b == 8:
            region.circuit.send(message)
            return True
        if b == 9:
            region.circuit.send(message.take())
            return None
        if b == 11:
            raise asyncio.CancelledError()          # e.g. .result() of a cancelled future
        if b == 12:
            raise SystemExit(3)                     # e.g. sys.exit() in a hook
        if message.name == "RequestMultipleObjects":
            message["ObjectData"]["CacheMissType"] = 1
        else:
            message["ChatData"]["Message"] = "changed"
        return None


class Model:
    """reference model of message ownership: what must happen on the wire for the ORIGINAL message"""
    def __init__(self):
        self.finalized = False
        self.queued = False
        self.sent = 0          # emissions of the original message object
        self.copies = 0        # emissions of copies made by take()
        self.claimed = False   # some hook returned truthy

    def hook(self, b):
        """returns True when the hook chain stops here"""
        if b in (1, 2):
            return True
        if b == 5 or b == 6:
            if not self.finalized:
                self.queued = True
            return b == 6
        if b == 7:
            if not self.finalized:          # else RuntimeError inside the hook (swallowed)
                self.finalized = True
            return False
        if b == 8:
            if self.finalized or self.queued:
                return False                # RuntimeError inside the hook (swallowed): hook returns nothing
            self.finalized = True
            self.sent += 1
            return True
        if b == 9:
            if not self.finalized:
                self.queued = True
            self.copies += 1
            return False
        return False


def run(behaviours, sub, outgoing, reliable):
    addons = [Addon(b) for b in behaviours]
    f = px.reset(addons)
    sub_calls = [0]
    sub_mode = [sub]

    def subscriber(message):
        sub_calls[0] += 1
        if sub_mode[0] == 1:
            raise RuntimeError("subscriber exploded")
        if sub_mode[0] == 2:
            message.take()

    name = "ChatFromViewer" if outgoing else "ChatFromSimulator"
    if sub != 3:
        f.session.message_handler.subscribe(name, subscriber)
    else:
        f.region.message_handler.subscribe("*", subscriber)
    msg = px.chat(10, reliable=reliable, outgoing=outgoing)
    model = Model()
    if sub == 2:
        model.queued = True
    expected_calls = []
    stopped = False
    for b in behaviours:
        if stopped:
            expected_calls.append(0)
            continue
        expected_calls.append(1)
        if model.hook(b):
            stopped = True
            model.claimed = True
    try:
        px.inject_packet(msg, outgoing)
    except Exception:
        return False                 # nothing an addon does may escape the proxy's packet handler
    except NON_EXCEPTIONS:
        return False                 # ... including exceptions that are not `Exception`s
    if [a.calls for a in addons] != expected_calls or sub_calls[0] != 1:
        return False                 # later hooks run unless an earlier one returned truthy; faults are isolated
    # proxy's own tail: queued => dropped; claimed => nothing more; else forwarded iff not finalized
    if model.queued and not model.finalized:
        model.finalized = True
    elif not model.claimed and not model.finalized:
        model.finalized = True
        model.sent += 1
    originals = [s for (s, _) in f.rec.sent if s.obj is msg]
    copies = [s for (s, _) in f.rec.sent if s.obj is not msg and s.name == name]
    if len(originals) != model.sent or model.sent > 1 or len(copies) != model.copies:
        return False
    if len(f.log.logged) != 1 + model.copies * 0 or f.log.logged[0] is not msg:
        # the proxy's own bookkeeping (message log) always sees the message exactly once
        return False
    if bool(msg.finalized) != model.finalized:
        return False
    # a message that was sent or dropped can never be sent or dropped again
    n = len(f.rec.sent)
    if model.finalized:
        for op in (f.circuit.send, f.circuit.drop_message):
            try:
                op(msg)
                return False
            except RuntimeError:
                pass
    if len(f.rec.sent) != n:
        return False
    # no wedging: a following plain packet is still forwarded exactly once, with the next hooks running
    for a in addons:
        a.b = 0
    sub_mode[0] = 0
    nxt = px.chat(11, reliable=False, outgoing=outgoing)
    try:
        px.inject_packet(nxt, outgoing)
    except Exception:
        return False
    except NON_EXCEPTIONS:
        return False
    return len([s for (s, _) in f.rec.sent if s.obj is nxt]) == 1


@harness(pre=["0 <= b0 < NB", "0 <= b1 < NB", "0 <= sub <= 3"], post="_", timeout=300,
         note="two addons x 13 hook behaviours each (return None/True/other truthy, raise ValueError/KeyError, take, take+True, "
              "drop, send original, send a copy, mutate, raise asyncio.CancelledError, raise SystemExit) x {no-op, raising, taking session subscriber, region wildcard "
              "subscriber} x direction x reliable: nothing escapes the packet handler, later hooks run unless an earlier one "
              "returned truthy, the original goes on the wire exactly as often as the ownership model says (<=1), the message "
              "log sees it once, re-send/re-drop raise RuntimeError and emit nothing, the next packet is forwarded once",
         covers=COVERS)
def two_addons(b0: int, b1: int, sub: int, outgoing: bool, reliable: bool) -> bool:
    return run([small(b0, 0, NB - 1), small(b1, 0, NB - 1)], small(sub, 0, 3), outgoing, reliable)


@harness(pre=["0 <= b0 < NB", "0 <= b1 < NB", "0 <= b2 < NB"], post="_", timeout=600, tiers=("thorough",),
         note="three addons x 13 behaviours each, both directions, reliable symbolic (thorough tier)", covers=COVERS)
def three_addons(b0: int, b1: int, b2: int, outgoing: bool, reliable: bool) -> bool:
    return run([small(b0, 0, NB - 1), small(b1, 0, NB - 1), small(b2, 0, NB - 1)], 0, outgoing, reliable)


shard(two_addons, "b0", range(NB), [f"first_{i}" for i in range(NB)], globals())
shard(three_addons, "b0", range(NB), [f"first_{i}" for i in range(NB)], globals())


CMD_TEXTS = ["", "help", "nosuchcommand arg", "x y"]


@harness(pre=["0 <= b0 < NB", "0 <= text < 4"], post="_", timeout=120,
         note="proxy command channel: viewer chat on channel 524 is claimed by the proxy itself (never forwarded, hooks of "
              "addons not consulted as a normal message) for any addon behaviour and 4 command texts (empty, help, unknown, other); the next packet flows",
         covers=COVERS + (_P + "addons:AddonManager._handle_command",))
def command_channel_claims(b0: int, text: int, reliable: bool) -> bool:
    addons = [Addon(small(b0, 0, NB - 1))]
    f = px.reset(addons)
    msg = px.chat(10, reliable=reliable, outgoing=True, channel=524, text=CMD_TEXTS[small(text, 0, 3)])
    try:
        px.inject_packet(msg, True)
    except Exception:
        return False
    except NON_EXCEPTIONS:
        return False
    if [s for (s, _) in f.rec.sent if s.obj is msg] or not msg.finalized or addons[0].calls != 0:
        return False
    nxt = px.chat(11, outgoing=True)
    addons[0].b = 0
    px.inject_packet(nxt, True)
    return len([s for (s, _) in f.rec.sent if s.obj is nxt]) == 1


OPS = ["take", "send", "drop", "send_copy"]


@harness(pre=["1 <= n <= 4", "(0 <= o0) & (o0 <= 3) & (0 <= o1) & (o1 <= 3) & (0 <= o2) & (o2 <= 3) & (0 <= o3) & (o3 <= 3)"],
         post="_", timeout=300,
         note="ownership state machine: ALL sequences of <=4 operations from {take, send, drop, send a taken copy} on one "
              "proxied message through the real ProxiedCircuit: the original is emitted at most once, exactly the operations "
              "the reference model allows succeed, every other one raises RuntimeError and puts nothing on the wire",
         covers=(_P + "circuit:ProxiedCircuit.prepare_message", _P + "circuit:ProxiedCircuit.drop_message",
                 "hippolyzer.lib.base.message.message:Message.take", "hippolyzer.lib.base.message.circuit:Circuit.send"))
def ownership_state_machine(n: int, o0: int, o1: int, o2: int, o3: int, outgoing: bool, reliable: bool) -> bool:
    f = px.reset(())
    msg = px.chat(10, reliable=reliable, outgoing=outgoing)
    ops = [small(o, 0, 3) for o in (o0, o1, o2, o3)][:small(n, 1, 4)]
    finalized = queued = False
    sent = 0
    for op in ops:
        before = len(f.rec.sent)
        ok = True
        try:
            if op == 0:
                msg.take()
            elif op == 1:
                f.circuit.send(msg)
            elif op == 2:
                f.circuit.drop_message(msg)
            else:
                f.circuit.send(msg.take())
        except RuntimeError:
            ok = False
        emitted_orig = len([s for (s, _) in f.rec.sent[before:] if s.obj is msg])
        if op == 0 or op == 3:
            if not ok or emitted_orig:
                return False
            if not finalized:
                queued = True
        elif op == 1:
            allowed = not finalized and not queued
            if ok != allowed or emitted_orig != (1 if allowed else 0):
                return False
            if allowed:
                finalized = True
                sent += 1
        else:
            allowed = not finalized
            if ok != allowed or emitted_orig:
                return False
            if allowed:
                finalized = True
        if not ok and len(f.rec.sent) != before:
            return False
    return sent <= 1 and bool(msg.finalized) == finalized


# ------------------------------------------------------------------------------------------------ handler isolation
SESSION_SUBS = ["wait_for(name, predicate raises KeyError, take=False)", "wait_for(name, predicate raises KeyError) [taking]",
                "subscribe_async(name, predicate raises KeyError)", "wait_for('*', predicate raises KeyError, take=False)",
                "subscribe(name, handler raising RuntimeError)", "wait_for(name, predicate False)",
                "wait_for(name, take=False) matching", "wait_for(name) matching [taking]"]
REGION_SUBS = ["subscribe(name)", "subscribe('*')", "wait_for(name, take=False)",
               "subscribe(name) + wait_for(name, predicate raises KeyError, take=False)"]
MESSAGES = ["ChatFromViewer (out)", "ChatFromSimulator (in, reliable)", "RequestMultipleObjects (out, reliable)"]
NSS, NRS, NM = len(SESSION_SUBS), len(REGION_SUBS), len(MESSAGES)


_OPEN_BLOCKS = []


def _typo(message):
    raise KeyError("LocalID")         # what a mistyped field name in a predicate gives


def _never(message):
    return False


def iso_message(m, pid, local_id):
    if m == 0:
        return px.chat(pid, reliable=False, outgoing=True)
    if m == 1:
        return px.chat(pid, reliable=True, outgoing=False)
    return Message("RequestMultipleObjects", Block("AgentData", AgentID=px.SESSION.agent_id, SessionID=px.SESSION.id),
                   Block("ObjectData", CacheMissType=0, ID=local_id), packet_id=pid, flags=int(PacketFlags.RELIABLE),
                   direction=Direction.OUT)


def install_session_sub(handler, ss, name):
    """the faulty / owning subscriber; returns the future it waits on (or None)"""
    if ss == 0:
        return handler.wait_for((name,), predicate=_typo, take=False)
    if ss == 1:
        return handler.wait_for((name,), predicate=_typo)
    if ss == 2:
        cm = handler.subscribe_async((name,), predicate=_typo)
        cm.__enter__()
        _OPEN_BLOCKS[:] = [cm]        # still inside the `with` block (dropping the reference would unsubscribe)
        return None
    if ss == 3:
        return handler.wait_for(("*",), predicate=_typo, take=False)
    if ss == 4:
        def explode(message):
            raise RuntimeError("subscriber exploded")
        handler.subscribe(name, explode)
        return None
    if ss == 5:
        return handler.wait_for((name,), predicate=_never)
    if ss == 6:
        return handler.wait_for((name,), take=False)
    return handler.wait_for((name,))


def run_isolation(ss, rs, b, m, observe_session):
    addon = Addon(b)
    f = px.reset([addon])
    outgoing = m != 1
    msg = iso_message(m, 10, 1234)
    name = msg.name
    # the proxy's own region-level bookkeeping, attached as ProxyObjectManager.__init__ does (px.reset() cleared it)
    f.region.message_handler.subscribe("RequestMultipleObjects", f.region.objects._handle_request_multiple_objects)
    f.region.objects.queued_cache_misses = {1234, 1235}
    # a well-behaved session-level observer that subscribed before the faulty one
    session_seen = []
    if observe_session:
        f.session.message_handler.subscribe(name, session_seen.append)
    sfut = install_session_sub(f.session.message_handler, ss, name)
    # region-level subscribers
    region_seen = []
    rfut = None
    if rs == 0 or rs == 3:
        f.region.message_handler.subscribe(name, region_seen.append)
    elif rs == 1:
        f.region.message_handler.subscribe("*", region_seen.append)
    else:
        rfut = f.region.message_handler.wait_for((name,), take=False)
    if rs == 3:
        f.region.message_handler.wait_for((name,), predicate=_typo, take=False)
    model = Model()
    if ss == 7:
        model.queued = True
    model.claimed = model.hook(b)
    try:
        px.inject_packet(msg, outgoing)
    except Exception:
        return False                 # nothing a subscriber or hook does may escape the proxy's packet handler
    except NON_EXCEPTIONS:
        return False
    # every other party saw the message exactly once: session observer, region subscriber, bookkeeping, addon hook
    if observe_session and (len(session_seen) != 1 or session_seen[0] is not msg):
        return False
    if rfut is None:
        if len(region_seen) != 1 or region_seen[0] is not msg:
            return False
    elif not rfut.done() or rfut.result() is not msg:
        return False
    if f.region.objects.queued_cache_misses != ({1235} if m == 2 else {1234, 1235}):
        return False
    if addon.calls != 1:
        return False
    # the faulty / owning subscriber's future
    if ss in (0, 1, 3, 5) and sfut.done():
        return False
    if ss == 6 and not (sfut.done() and sfut.result() is msg):
        return False
    if ss == 7 and not (sfut.done() and sfut.result() is not msg and sfut.result().name == name):
        return False
    # wire, log and ownership exactly as the ownership model says
    if model.queued and not model.finalized:
        model.finalized = True
    elif not model.claimed and not model.finalized:
        model.finalized = True
        model.sent += 1
    originals = [s for (s, _) in f.rec.sent if s.obj is msg]
    copies = [s for (s, _) in f.rec.sent if s.obj is not msg and s.name == name]
    if len(originals) != model.sent or model.sent > 1 or len(copies) != model.copies:
        return False
    if len(f.log.logged) != 1 or f.log.logged[0] is not msg:
        return False
    if bool(msg.finalized) != model.finalized:
        return False
    # no wedging: the faulty subscribers are still there; the next message of that type gets the same treatment
    addon.b = 0
    nxt = iso_message(m, 11, 777)
    try:
        px.inject_packet(nxt, outgoing)
    except Exception:
        return False
    except NON_EXCEPTIONS:
        return False
    if observe_session and (len(session_seen) != 2 or session_seen[1] is not nxt):
        return False
    if rfut is None and (len(region_seen) != 2 or region_seen[1] is not nxt):
        return False
    if addon.calls != 2 or len(f.log.logged) != 2 or f.log.logged[1] is not nxt:
        return False
    if f.region.objects.queued_cache_misses != ({1235} if m == 2 else {1234, 1235}):
        return False
    return len([s for (s, _) in f.rec.sent if s.obj is nxt]) == 1


@harness(pre=["0 <= ss < NSS", "0 <= rs < NRS", "0 <= b0 < NB", "0 <= m < NM"], post="_", timeout=300,
         note="handler isolation between the session and the region message handler: 8 session-level subscribers (wait_for / "
              "subscribe_async / wildcard wait_for whose predicate raises KeyError, handler body raising, predicate False, "
              "matching observer future, matching taking future) x 4 region-level subscriber set-ups (named, wildcard, "
              "wait_for future, named + a wait_for whose predicate raises) x 13 addon hook behaviours x 3 messages (chat out, "
              "reliable chat in, reliable RequestMultipleObjects with the real ProxyObjectManager cache-miss bookkeeping "
              "re-attached to the region handler) x {with, without an earlier well-behaved session observer}: nothing "
              "escapes the packet handler; the session observer, the region subscriber / future, the region bookkeeping "
              "(queued_cache_misses pruned) and the addon hook each see the message exactly once; the waiting futures "
              "resolve exactly when their predicate matched (a taking one gets a copy); the original goes on the wire as "
              "often as the ownership model says and is logged once; the next message of the same type is handled the same "
              "way and forwarded once", covers=COVERS + (
                 "hippolyzer.lib.base.message.message_handler:MessageHandler.wait_for",
                 "hippolyzer.lib.base.message.message_handler:MessageHandler.subscribe_async",
                 _P + "object_manager:ProxyObjectManager._handle_request_multiple_objects"))
def handler_isolation(ss: int, rs: int, b0: int, m: int, observe_session: bool) -> bool:
    return run_isolation(small(ss, 0, NSS - 1), small(rs, 0, NRS - 1), small(b0, 0, NB - 1), small(m, 0, NM - 1), observe_session)


shard(handler_isolation, "ss", range(NSS), [f"session_sub_{i}" for i in range(NSS)], globals())


FAULTY = ["wait_for(name, predicate raises KeyError, take=False)", "subscribe_async(name, predicate raises KeyError)",
          "subscribe(name, handler raising RuntimeError)"]


@harness(pre=["0 <= faulty <= 2"], post="_", timeout=120,
         note="isolation between subscribers of ONE message handler (Event.notify: 'One handler failing shouldn't prevent "
              "notification of other handlers'): a faulty subscriber (wait_for / subscribe_async whose predicate raises "
              "KeyError, or a raising handler body) and a well-behaved observer on the same handler, x {session, region "
              "handler} x {observer subscribed by name, by wildcard} x {observer subscribed before, after the faulty one} x "
              "direction: the observer sees the message exactly once, the message is forwarded and logged exactly once, "
              "nothing escapes", covers=COVERS)
def same_handler_isolation(faulty: int, on_region: bool, wildcard: bool, observer_first: bool, outgoing: bool) -> bool:
    f = px.reset(())
    handler = f.region.message_handler if on_region else f.session.message_handler
    msg = px.chat(10, outgoing=outgoing)
    seen = []
    if observer_first:
        handler.subscribe("*" if wildcard else msg.name, seen.append)
    install_session_sub(handler, (0, 2, 4)[small(faulty, 0, 2)], msg.name)
    if not observer_first:
        handler.subscribe("*" if wildcard else msg.name, seen.append)
    try:
        px.inject_packet(msg, outgoing)
    except Exception:
        return False
    if len(seen) != 1 or seen[0] is not msg:
        return False
    return len([s for (s, _) in f.rec.sent if s.obj is msg]) == 1 and len(f.log.logged) == 1 and f.log.logged[0] is msg



# ---------------------------------------------------------------------------------------------------------------------
# the dispatch point itself: hippolyzer.lib.base.events.Event.notify under MessageHandler
from harness import eventfix as _ef  # noqa: E402


@harness(pre=["0 <= b0 < 9", "0 <= b1 < 9", "0 <= b2 < 9", "1 <= n <= 3"], post="_", timeout=300,
         note="Event.notify (fault isolation / at-most-once at the dispatch point shared by addon, session and region subscriptions): 1..3 subscribers, each with a symbolically chosen behaviour out of "
              "{normal, returns True (asks to be unsubscribed), one-shot, raises, predicate false, predicate raises, unsubscribes "
              "itself inside the handler and returns True, unsubscribes itself and returns None, returns a value whose truth test "
              "raises}, followed by an observer subscribed last; two notifications: every subscriber registered when a notification "
              "starts whose predicate passes is called exactly once, in subscription order, whatever the others do; notify() "
              "never raises; exactly the subscribers that neither left nor were one-shot remain for the second notification",
         covers=("hippolyzer.lib.base.events:Event.notify", "hippolyzer.lib.base.events:Event.unsubscribe",
                 "hippolyzer.lib.base.events:Event.subscribe"))
def event_notify_matrix(b0: int, b1: int, b2: int, n: int) -> bool:
    return _ef.notify_matrix(b0, b1, b2, n)


shard(event_notify_matrix, "b0", range(9), _ef.LABELS, globals())


EVIDENCE = {
    "bounds": "2 addons (quick) / 3 addons (thorough) x 13 behaviours per hook (incl. raising asyncio.CancelledError and "
              "SystemExit), 4 subscriber variants, direction and reliable bit symbolic; handler isolation: 8 session-level "
              "subscribers x 4 region-level set-ups x 13 hook behaviours of one addon x 3 messages x {with, without} an earlier "
              "session observer, two consecutive messages; 3 faulty subscribers x {session, region handler} x {named, "
              "wildcard observer} x subscription order x direction on one handler; operation sequences of length <=4 over 4 "
              "ownership operations",
    "outside": "hook points other than handle_lludp_message (handle_proxied_packet pre-parse hook, RLV command hooks); async "
               "hooks; non-Exception exceptions other than asyncio.CancelledError / SystemExit (KeyboardInterrupt, "
               "GeneratorExit: the engine itself steers with BaseException subclasses); one-shot unsubscribe failures inside "
               "Event.notify; byte codec (snapshot serializer)",
    "assumptions": ["addon hot-reload stubbed; the deserializer is stubbed to hand over the prepared Message",
                    "the shared fixture clears the region handler's subscriptions per path; the handler-isolation obligation "
                    "re-attaches ProxyObjectManager._handle_request_multiple_objects as ProxyObjectManager.__init__ does"],
}
