"""C07 — addons cannot duplicate, lose or wedge traffic: at-most-once, fault-isolated.

Engine A: the *fault schedule* is symbolic — a behaviour per addon hook (return values, exceptions, take, drop,
re-send, send a copy, mutate) for up to three addons plus a session-level subscriber, message direction and
reliability — driven through the real handle_proxied_packet / AddonManager / ProxiedCircuit.
"""
from vlib.harness import harness, shard
from harness import proxyfix as px
from harness.proxyfix import small
from hippolyzer.lib.base.message.message import Message, Block
from hippolyzer.lib.base.network.transport import Direction

_P = "hippolyzer.lib.proxy."
COVERS = (_P + "lludp_proxy:InterceptingLLUDPProxyProtocol.handle_proxied_packet", _P + "addons:AddonManager.handle_lludp_message",
          _P + "addons:AddonManager._call_all_addon_hooks", _P + "addons:AddonManager._call_module_hooks",
          _P + "addons:AddonManager._try_call_hook", _P + "circuit:ProxiedCircuit.prepare_message",
          _P + "circuit:ProxiedCircuit.drop_message", "hippolyzer.lib.base.message.message:Message.take",
          "hippolyzer.lib.base.message.circuit:Circuit.send", "hippolyzer.lib.base.message.message_handler:MessageHandler.handle",
          "hippolyzer.lib.base.events:Event.notify")

NB = 11
BEHAVIOURS = ["return None", "return True", "return 'x'", "raise ValueError", "raise KeyError", "take()", "take(); return True",
              "drop_message()", "circuit.send(original); return True", "circuit.send(take())", "mutate field"]


class Addon:
    def __init__(self, behaviour):
        self.b = behaviour
        self.calls = 0

    def handle_lludp_message(self, session, region, message):
        self.calls += 1
        b = self.b
        if b == 0:
            return None
        if b == 1:
            return True
        if b == 2:
            return "x"
        if b == 3:
            raise ValueError("addon exploded")
        if b == 4:
            raise KeyError("addon exploded")
        if b == 5:
            message.take()
            return None
        if b == 6:
            message.take()
            return True
        if b == 7:
            region.circuit.drop_message(message)
            return None
        if b == 8:
            region.circuit.send(message)
            return True
        if b == 9:
            region.circuit.send(message.take())
            return None
        message["ChatData"]["Message"] = "changed"
        return None


class Model:
    """reference model of message ownership: what must happen on the wire for the ORIGINAL message"""
    def __init__(self):
        self.finalized = False
        self.queued = False
        self.sent = 0          # emissions of the original message object
        self.copies = 0        # emissions of copies made by take()
        self.claimed = False   # some hook returned truthy

    def hook(self, b):
        """returns True when the hook chain stops here"""
        if b in (1, 2):
            return True
        if b == 5 or b == 6:
            if not self.finalized:
                self.queued = True
            return b == 6
        if b == 7:
            if not self.finalized:          # else RuntimeError inside the hook (swallowed)
                self.finalized = True
            return False
        if b == 8:
            if self.finalized or self.queued:
                return False                # RuntimeError inside the hook (swallowed): hook returns nothing
            self.finalized = True
            self.sent += 1
            return True
        if b == 9:
            if not self.finalized:
                self.queued = True
            self.copies += 1
            return False
        return False


def run(behaviours, sub, outgoing, reliable):
    addons = [Addon(b) for b in behaviours]
    f = px.reset(addons)
    sub_calls = [0]
    sub_mode = [sub]

    def subscriber(message):
        sub_calls[0] += 1
        if sub_mode[0] == 1:
            raise RuntimeError("subscriber exploded")
        if sub_mode[0] == 2:
            message.take()

    name = "ChatFromViewer" if outgoing else "ChatFromSimulator"
    if sub != 3:
        f.session.message_handler.subscribe(name, subscriber)
    else:
        f.region.message_handler.subscribe("*", subscriber)
    msg = px.chat(10, reliable=reliable, outgoing=outgoing)
    model = Model()
    if sub == 2:
        model.queued = True
    expected_calls = []
    stopped = False
    for b in behaviours:
        if stopped:
            expected_calls.append(0)
            continue
        expected_calls.append(1)
        if model.hook(b):
            stopped = True
            model.claimed = True
    try:
        px.inject_packet(msg, outgoing)
    except Exception:
        return False                 # nothing an addon does may escape the proxy's packet handler
    if [a.calls for a in addons] != expected_calls or sub_calls[0] != 1:
        return False                 # later hooks run unless an earlier one returned truthy; faults are isolated
    # proxy's own tail: queued => dropped; claimed => nothing more; else forwarded iff not finalized
    if model.queued and not model.finalized:
        model.finalized = True
    elif not model.claimed and not model.finalized:
        model.finalized = True
        model.sent += 1
    originals = [s for (s, _) in f.rec.sent if s.obj is msg]
    copies = [s for (s, _) in f.rec.sent if s.obj is not msg and s.name == name]
    if len(originals) != model.sent or model.sent > 1 or len(copies) != model.copies:
        return False
    if len(f.log.logged) != 1 + model.copies * 0 or f.log.logged[0] is not msg:
        # the proxy's own bookkeeping (message log) always sees the message exactly once
        return False
    if bool(msg.finalized) != model.finalized:
        return False
    # a message that was sent or dropped can never be sent or dropped again
    n = len(f.rec.sent)
    if model.finalized:
        for op in (f.circuit.send, f.circuit.drop_message):
            try:
                op(msg)
                return False
            except RuntimeError:
                pass
    if len(f.rec.sent) != n:
        return False
    # no wedging: a following plain packet is still forwarded exactly once, with the next hooks running
    for a in addons:
        a.b = 0
    sub_mode[0] = 0
    nxt = px.chat(11, reliable=False, outgoing=outgoing)
    try:
        px.inject_packet(nxt, outgoing)
    except Exception:
        return False
    return len([s for (s, _) in f.rec.sent if s.obj is nxt]) == 1


@harness(pre=["0 <= b0 < NB", "0 <= b1 < NB", "0 <= sub <= 3"], post="_", timeout=300,
         note="two addons x 11 hook behaviours each (return None/True/other truthy, raise ValueError/KeyError, take, take+True, "
              "drop, send original, send a copy, mutate) x {no-op, raising, taking session subscriber, region wildcard "
              "subscriber} x direction x reliable: nothing escapes the packet handler, later hooks run unless an earlier one "
              "returned truthy, the original goes on the wire exactly as often as the ownership model says (<=1), the message "
              "log sees it once, re-send/re-drop raise RuntimeError and emit nothing, the next packet is forwarded once",
         covers=COVERS)
def two_addons(b0: int, b1: int, sub: int, outgoing: bool, reliable: bool) -> bool:
    return run([small(b0, 0, NB - 1), small(b1, 0, NB - 1)], small(sub, 0, 3), outgoing, reliable)


@harness(pre=["0 <= b0 < NB", "0 <= b1 < NB", "0 <= b2 < NB"], post="_", timeout=600, tiers=("thorough",),
         note="three addons x 11 behaviours each, both directions, reliable symbolic (thorough tier)", covers=COVERS)
def three_addons(b0: int, b1: int, b2: int, outgoing: bool, reliable: bool) -> bool:
    return run([small(b0, 0, NB - 1), small(b1, 0, NB - 1), small(b2, 0, NB - 1)], 0, outgoing, reliable)


shard(two_addons, "b0", range(NB), [f"first_{i}" for i in range(NB)], globals())
shard(three_addons, "b0", range(NB), [f"first_{i}" for i in range(NB)], globals())


CMD_TEXTS = ["", "help", "nosuchcommand arg", "x y"]


@harness(pre=["0 <= b0 < NB", "0 <= text < 4"], post="_", timeout=120,
         note="proxy command channel: viewer chat on channel 524 is claimed by the proxy itself (never forwarded, hooks of "
              "addons not consulted as a normal message) for any addon behaviour and 4 command texts (empty, help, unknown, other); the next packet flows",
         covers=COVERS + (_P + "addons:AddonManager._handle_command",))
def command_channel_claims(b0: int, text: int, reliable: bool) -> bool:
    addons = [Addon(small(b0, 0, NB - 1))]
    f = px.reset(addons)
    msg = px.chat(10, reliable=reliable, outgoing=True, channel=524, text=CMD_TEXTS[small(text, 0, 3)])
    try:
        px.inject_packet(msg, True)
    except Exception:
        return False
    if [s for (s, _) in f.rec.sent if s.obj is msg] or not msg.finalized or addons[0].calls != 0:
        return False
    nxt = px.chat(11, outgoing=True)
    addons[0].b = 0
    px.inject_packet(nxt, True)
    return len([s for (s, _) in f.rec.sent if s.obj is nxt]) == 1


OPS = ["take", "send", "drop", "send_copy"]


@harness(pre=["1 <= n <= 4", "(0 <= o0) & (o0 <= 3) & (0 <= o1) & (o1 <= 3) & (0 <= o2) & (o2 <= 3) & (0 <= o3) & (o3 <= 3)"],
         post="_", timeout=300,
         note="ownership state machine: ALL sequences of <=4 operations from {take, send, drop, send a taken copy} on one "
              "proxied message through the real ProxiedCircuit: the original is emitted at most once, exactly the operations "
              "the reference model allows succeed, every other one raises RuntimeError and puts nothing on the wire",
         covers=(_P + "circuit:ProxiedCircuit.prepare_message", _P + "circuit:ProxiedCircuit.drop_message",
                 "hippolyzer.lib.base.message.message:Message.take", "hippolyzer.lib.base.message.circuit:Circuit.send"))
def ownership_state_machine(n: int, o0: int, o1: int, o2: int, o3: int, outgoing: bool, reliable: bool) -> bool:
    f = px.reset(())
    msg = px.chat(10, reliable=reliable, outgoing=outgoing)
    ops = [small(o, 0, 3) for o in (o0, o1, o2, o3)][:small(n, 1, 4)]
    finalized = queued = False
    sent = 0
    for op in ops:
        before = len(f.rec.sent)
        ok = True
        try:
            if op == 0:
                msg.take()
            elif op == 1:
                f.circuit.send(msg)
            elif op == 2:
                f.circuit.drop_message(msg)
            else:
                f.circuit.send(msg.take())
        except RuntimeError:
            ok = False
        emitted_orig = len([s for (s, _) in f.rec.sent[before:] if s.obj is msg])
        if op == 0 or op == 3:
            if not ok or emitted_orig:
                return False
            if not finalized:
                queued = True
        elif op == 1:
            allowed = not finalized and not queued
            if ok != allowed or emitted_orig != (1 if allowed else 0):
                return False
            if allowed:
                finalized = True
                sent += 1
        else:
            allowed = not finalized
            if ok != allowed or emitted_orig:
                return False
            if allowed:
                finalized = True
        if not ok and len(f.rec.sent) != before:
            return False
    return sent <= 1 and bool(msg.finalized) == finalized


EVIDENCE = {
    "bounds": "2 addons (quick) / 3 addons (thorough) x 11 behaviours per hook, 4 subscriber variants, direction and reliable "
              "bit symbolic; operation sequences of length <=4 over 4 ownership operations",
    "outside": "hook points other than handle_lludp_message (handle_proxied_packet pre-parse hook, RLV command hooks); async "
               "hooks; byte codec (snapshot serializer)",
    "assumptions": ["addon hot-reload stubbed; the deserializer is stubbed to hand over the prepared Message"],
}
