"""C18 — message log: filters mean what they say and the view equals the filtered log.

Engine A.  (1) boolean structure: filter trees built from symbolic choices with leaves whose truth values are symbolic
booleans, evaluated by the real node classes with and without short-circuit and after a round trip through the real
PEG grammar; (2) field comparisons: operator x value-type x literal-type matrix with symbolic values through the real
_val_matches / LLUDPMessageLogEntry.matches; (3) view invariant: all operation sequences up to a depth bound on the real
FilteringMessageLogger against a reference model; (4) freeze/thaw of a logged message.
"""
from vlib.harness import harness, shard
import hippolyzer.lib.base.message.message as _message_mod
from hippolyzer.lib.base.datatypes import UUID, Vector3
from hippolyzer.lib.base.message.message import Message, Block
from hippolyzer.lib.base.network.transport import Direction
from hippolyzer.lib.proxy.message_filter import (compile_filter, UnaryNotFilterNode, OrFilterNode, AndFilterNode,
                                                  BaseFilterNode, MatchResult, MessageFilterNode, LiteralValue)
from hippolyzer.lib.proxy.message_logger import FilteringMessageLogger, LLUDPMessageLogEntry

_message_mod.maybe_reload_templates = lambda: None
_F = "hippolyzer.lib.proxy.message_filter:"
_L = "hippolyzer.lib.proxy.message_logger:"


def small(x, lo, hi):
    for v in range(lo, hi + 1):
        if x == v:
            return v
    raise AssertionError("selector out of range")


# ------------------------------------------------------------------------------------------------ (1) boolean structure
class Leaf(BaseFilterNode):
    def __init__(self, truth):
        self.truth = truth
        self.calls = 0

    def match(self, msg, short_circuit=True):
        self.calls += 1
        return MatchResult(True if self.truth else False, [])

    @property
    def children(self):
        return ()


def build(kind, left, right):
    """kind: 0 leaf(left), 1 not(left), 2 and, 3 or"""
    if kind == 0:
        return left
    if kind == 1:
        return UnaryNotFilterNode(left)
    if kind == 2:
        return AndFilterNode(left, right)
    return OrFilterNode(left, right)


def ref(kind, a, b):
    if kind == 0:
        return a
    if kind == 1:
        return not a
    if kind == 2:
        return a and b
    return a or b


@harness(pre=["0 <= k0 <= 3", "0 <= k1 <= 3", "0 <= k2 <= 3"], post="_", timeout=300,
         note="all filter trees of depth <=3 over {leaf, !, &&, ||} (root and both children chosen symbolically) with four "
              "leaves of symbolic truth value: the real node classes agree with the truth-table semantics with and without "
              "short-circuit evaluation, and the result is a MatchResult whose truthiness is the boolean",
         covers=(_F + "UnaryNotFilterNode.match", _F + "OrFilterNode.match", _F + "AndFilterNode.match"))
def boolean_trees(k0: int, k1: int, k2: int, b0: bool, b1: bool, b2: bool, b3: bool) -> bool:
    k0, k1, k2 = small(k0, 0, 3), small(k1, 0, 3), small(k2, 0, 3)
    want = ref(k0, ref(k1, b0, b1), ref(k2, b2, b3))
    for sc in (True, False):
        left = build(k1, Leaf(b0), Leaf(b1))
        right = build(k2, Leaf(b2), Leaf(b3))
        tree = build(k0, left, right)
        got = tree.match(None, short_circuit=sc)
        if bool(got) != bool(want) or not isinstance(got.fields, list):
            return False
    return True


class NamedEntry:
    """log entry stub whose truth per named leaf is given (goes through the real MessageFilterNode.match)"""
    def __init__(self, truth):
        self.truth = truth

    def matches(self, matcher, short_circuit=True):
        return MatchResult(bool(self.truth[matcher.selector[0]]), [])


def render(kind, a, b):
    if kind == 0:
        return a
    if kind == 1:
        return f"!({a})"
    return f"({a}) {'&&' if kind == 2 else '||'} ({b})"


@harness(pre=["0 <= k0 <= 3", "0 <= k1 <= 3", "0 <= k2 <= 3", "0 <= o1 <= 1", "0 <= o2 <= 1"], post="_", timeout=400,
         note="the same trees rendered to filter text (fully parenthesised) and flat chains `A op B op C` re-parsed by the real "
              "PEG grammar (compile_filter) denote the same boolean function as the tree (flat chains associate to the right, "
              "as the grammar defines) for all truth assignments, with and without short-circuit",
         covers=(_F + "compile_filter", _F + "MessageFilterVisitor.visit_expression", _F + "MessageFilterVisitor.visit_unary_expression",
                 _F + "MessageFilterNode.match"))
def boolean_text_roundtrip(k0: int, k1: int, k2: int, o1: int, o2: int, b0: bool, b1: bool, b2: bool, b3: bool) -> bool:
    k0, k1, k2 = small(k0, 0, 3), small(k1, 0, 3), small(k2, 0, 3)
    text = render(k0, render(k1, "La", "Lb"), render(k2, "Lc", "Ld"))
    entry = NamedEntry({"La": b0, "Lb": b1, "Lc": b2, "Ld": b3})
    want = ref(k0, ref(k1, b0, b1), ref(k2, b2, b3))
    node = compile_filter(text)
    for sc in (True, False):
        if bool(node.match(entry, sc)) != bool(want):
            return False
    ops = ["&&", "||"]
    o1, o2 = small(o1, 0, 1), small(o2, 0, 1)
    flat = compile_filter(f"La {ops[o1]} !Lb {ops[o2]} Lc")
    inner = ((not b1) and b2) if o2 == 0 else ((not b1) or b2)
    want_flat = (b0 and inner) if o1 == 0 else (b0 or inner)
    return bool(flat.match(entry, True)) == bool(want_flat) and bool(flat.match(entry, False)) == bool(want_flat)


# ------------------------------------------------------------------------------------------------ (2) field comparisons
OPS = ["==", "!=", "^=", "$=", "~=", "<", "<=", ">", ">=", "&"]
U1 = UUID("01234567-89ab-cdef-0123-456789abcdef")


def pick_value(t, i, s, b):
    """value of symbolic type and value: 0 int, 1 str, 2 bytes, 3 None, 4 tuple, 5 Vector3, 6 UUID (stringified by the code)"""
    if t == 0:
        return i
    if t == 1:
        return s
    if t == 2:
        return b
    if t == 3:
        return None
    if t == 4:
        return (1.0, 2.0, 3.0)
    if t == 5:
        return Vector3(1.0, 2.0, 3.0)
    return U1


def py_semantics(op, val, expected):
    """what the comparison means under Python semantics; inapplicable => False"""
    try:
        if op == "==":
            return bool(val == expected)
        if op == "!=":
            return bool(val != expected)
        if op == "^=":
            return False if val is None else bool(val.startswith(expected))
        if op == "$=":
            return False if val is None else bool(val.endswith(expected))
        if op == "~=":
            return False if val is None else bool(expected in val)
        if op == "<":
            return bool(val < expected)
        if op == "<=":
            return bool(val <= expected)
        if op == ">":
            return bool(val > expected)
        if op == ">=":
            return bool(val >= expected)
        return bool(val & expected)
    except (TypeError, AttributeError, ValueError):
        return False


_ENTRY = LLUDPMessageLogEntry(Message("ChatFromViewer", Block("ChatData", Message="x", Type=1, Channel=0), direction=Direction.OUT),
                              None, None)


STRS = ["", "a", "ab", "01", "b"]
BYTS = [b"", b"a", b"\xff"]


@harness(pre=["0 <= op <= 9", "0 <= vt <= 6", "0 <= et <= 4", "0 <= vs <= 4", "0 <= es <= 4", "0 <= vb <= 2", "0 <= eb <= 2",
              "(-2 <= vi) & (vi <= 3) & (-2 <= ei) & (ei <= 3)"], post="_", timeout=300,
         note="operator x field-type x literal-type matrix (10 operators; field: int / str / bytes / None / tuple / Vector3 / "
              "UUID; literal: int / str / bytes / None / tuple; symbolic ints in [-2,3] and <=1-byte bytes (operands of & / ordering are realized), strs from a 5-entry catalogue since CrossHair's ordering of symbolic strs is inexact) through the real "
              "_val_matches: never raises, and is truthy exactly when the comparison holds under Python semantics (an "
              "inapplicable comparison is simply false)", covers=(_L + "AbstractMessageLogEntry._val_matches",))
def val_matches_matrix(op: int, vt: int, vi: int, vs: int, vb: int, et: int, ei: int, es: int, eb: int) -> bool:
    op, vt, et = OPS[small(op, 0, 9)], small(vt, 0, 6), small(et, 0, 4)
    if vt in (4, 5) and et == 0:
        ei = small(ei, -2, 3)        # int-vs-float-tuple membership makes the engine wander: decide it per value
    # only the selector the chosen type uses is concretized (the others do not multiply the paths)
    val = pick_value(vt, vi, STRS[small(vs, 0, 4)] if vt == 1 else "", BYTS[small(vb, 0, 2)] if vt == 2 else b"")
    expected = pick_value(et, ei, STRS[small(es, 0, 4)] if et == 1 else "", BYTS[small(eb, 0, 2)] if et == 2 else b"")
    got = _ENTRY._val_matches(op, val, LiteralValue(expected))
    norm_val = val if isinstance(val, (int, float, bytes, str, type(None), tuple, Vector3)) else str(val)
    return bool(got) == py_semantics(op, norm_val, expected)


for _sh in shard(val_matches_matrix, "op", range(10), ["eq", "ne", "startswith", "endswith", "contains", "lt", "le", "gt", "ge", "and"],
                 globals()):
    # second level: one obligation per (operator, field type) so that no single obligation dominates the wall time
    shard(_sh, "vt", range(7), ["int", "str", "bytes", "none", "tuple", "vector", "uuid"], globals())
    del globals()[_sh.__name__]
del _sh


@harness(pre=["0 <= op <= 9", "0 <= et <= 2", "len(msg) <= 2", "len(es) <= 2", "(-2 <= ty) & (ty <= 4) & (-2 <= ch) & (ch <= 4)",
              "(-2 <= ei) & (ei <= 4)"], post="_", timeout=400,
         note="wildcard field selectors through the real LLUDPMessageLogEntry.matches on a 3-variable block (str, int, int "
              "with symbolic values): `ChatFromViewer.ChatData.* <op> <literal>` never raises and is true iff SOME selected "
              "field satisfies the comparison; fields the operator cannot be applied to are simply false",
         covers=(_L + "LLUDPMessageLogEntry.matches", _L + "AbstractMessageLogEntry._val_matches",
                 _L + "AbstractMessageLogEntry._base_matches"))
def wildcard_field_filter(op: int, msg: str, ty: int, ch: int, et: int, ei: int, es: str) -> bool:
    op, et = OPS[small(op, 0, 9)], small(et, 0, 2)
    expected = [ei, es, None][et]
    entry = LLUDPMessageLogEntry(Message("ChatFromViewer", Block("ChatData", Message=msg, Type=ty, Channel=ch),
                                         direction=Direction.OUT), None, None)
    node = MessageFilterNode(("ChatFromViewer", "ChatData", "*"), op, LiteralValue(expected))
    want = any(py_semantics(op, v, expected) for v in (msg, ty, ch))
    for sc in (True, False):
        if bool(node.match(entry, sc)) != want:
            return False
    return True


SUBKEYS = ("Position", "Velocity", "Acceleration")
SUBSELS = ["*", "*ion", "Velocity", "Pos*", "?cceleration", "Nope"]


@harness(pre=["0 <= op <= 9", "0 <= sel <= 5", "0 <= et <= 2", "0 <= es <= 1",
              "(-2 <= a) & (a <= 4) & (-2 <= b) & (b <= 4) & (-2 <= c) & (c <= 4) & (-2 <= ei) & (ei <= 4)",
              # `&` realizes both operands (one path per value pair): the bit-test shard runs on 0..2 / 0..3
              "op != 9 or ((0 <= a) & (a <= 2) & (0 <= b) & (b <= 2) & (0 <= c) & (c <= 2) & (0 <= ei) & (ei <= 3))"],
         post="_", timeout=400,
         note="sub-field (4-part) selectors through the real LLUDPMessageLogEntry.matches: `ObjectUpdate.ObjectData.ObjectData.<glob> "
              "<op> <literal>` on a decoded dict-valued variable with three symbolic members (the decoded view is placed in the "
              "block's decode cache, which is where matches() reads it from): true iff SOME member selected by the glob satisfies "
              "the comparison (not just the first one the glob hits), with and without short-circuit; the bare existence form is "
              "true iff the glob selects any member; never raises (members and literal in -2..4; for the bit-test operator `&`, whose "
              "operands are realized, members 0..2 and literal 0..3)",
         covers=(_L + "LLUDPMessageLogEntry.matches", _L + "AbstractMessageLogEntry._val_matches"))
def subfield_glob_filter(op: int, sel: int, a: int, b: int, c: int, et: int, ei: int, es: int) -> bool:
    import fnmatch
    op, sel, et = OPS[small(op, 0, 9)], SUBSELS[small(sel, 0, 5)], small(et, 0, 2)
    expected = [ei, STRS[small(es, 0, 4)], None][et]
    block = Block("ObjectData", ObjectData=b"", ID=1)
    block._ser_cache["ObjectData"] = dict(zip(SUBKEYS, (a, b, c)))
    entry = LLUDPMessageLogEntry(Message("ObjectUpdate", block, direction=Direction.IN), None, None)
    chosen = [v for k, v in zip(SUBKEYS, (a, b, c)) if fnmatch.fnmatchcase(k, sel)]
    node = MessageFilterNode(("ObjectUpdate", "ObjectData", "ObjectData", sel), op, LiteralValue(expected))
    want = any(py_semantics(op, v, expected) for v in chosen)
    exists = MessageFilterNode(("ObjectUpdate", "ObjectData", "ObjectData", sel), None, None)
    for sc in (True, False):
        if bool(node.match(entry, sc)) != want:
            return False
        if bool(exists.match(entry, sc)) != bool(chosen):
            return False
    return True


shard(subfield_glob_filter, "op", range(10), ["eq", "ne", "startswith", "endswith", "contains", "lt", "le", "gt", "ge", "and"], globals())


# ------------------------------------------------------------------------------------------------ (3) view invariant
class E:
    """minimal log entry: a name; matches() by name through the real filter nodes"""
    def __init__(self, name, n):
        self.name, self.n = name, n

    def matches(self, matcher, short_circuit=True):
        sel = matcher.selector[0]
        return MatchResult(sel == "*" or sel == self.name, [])


FILTERS = ["", "A", "!A", "A || B"]
FREF = [lambda e: True, lambda e: e.name == "A", lambda e: e.name != "A", lambda e: e.name in ("A", "B")]
O_LOG_A, O_LOG_B, O_LOG_C, O_FILTER, O_PAUSE, O_RESUME, O_CLEAR = range(7)
NOP = 7
OPN = ["logA", "logB", "logC", "set_filter", "pause", "resume", "clear"]


def logger_run(maxlen, ops):
    lg = FilteringMessageLogger(maxlen=maxlen)
    raw, view, flt, paused = [], [], 0, False
    counter = 0
    for op, arg in ops:
        if op in (O_LOG_A, O_LOG_B, O_LOG_C):
            counter += 1
            e = E("ABC"[op], counter)
            lg.add_log_entry(e)
            if not paused:
                raw.append(e)
                if len(raw) > maxlen:
                    raw.pop(0)
                if FREF[flt](e):
                    view.append(e)
        elif op == O_FILTER:
            flt = arg
            lg.set_filter(FILTERS[arg])
            # retained = entries that aged out of the window but were visible + the window; visible = those matching
            aged_visible = [e for e in view if e not in raw]
            view = [e for e in aged_visible if FREF[flt](e)] + [e for e in raw if FREF[flt](e)]
        elif op == O_PAUSE:
            lg.set_paused(True)
            paused = True
        elif op == O_RESUME:
            lg.set_paused(False)
            paused = False
        else:
            lg.clear()
            raw, view = [], []
        got = list(lg)
        if got != view:
            return False
        if len(set(id(x) for x in got)) != len(got) or [x.n for x in got] != sorted(x.n for x in got):
            return False             # no duplicates, arrival order
    return True


@harness(pre=["2 <= maxlen <= 3", "0 <= o0 < NOP", "0 <= o1 < NOP", "0 <= o2 < NOP", "o3 == 0",
              "(0 <= a0) & (a0 <= 3) & (a1 == a0) & (a2 == a0) & (a3 == 0)"], post="_", timeout=600,
         note="all sequences of 3 operations (after a fixed 3-entry prefix; one symbolic filter choice per run) over {log A/B/C entry, set_filter(4 filters), pause, resume, clear} on a real "
              "FilteringMessageLogger with a retention window of 2 or 3: after every step the visible log equals the reference "
              "model (retained entries matching the current filter, arrival order, no duplicates), incl. window overflow",
         covers=(_L + "FilteringMessageLogger.add_log_entry", _L + "FilteringMessageLogger.set_filter",
                 _L + "FilteringMessageLogger.clear", _L + "FilteringMessageLogger.set_paused"))
def logger_view_sequences(maxlen: int, o0: int, a0: int, o1: int, a1: int, o2: int, a2: int, o3: int, a3: int) -> bool:
    ops = [(small(o0, 0, NOP - 1), small(a0, 0, 3)), (small(o1, 0, NOP - 1), small(a1, 0, 3)),
           (small(o2, 0, NOP - 1), small(a2, 0, 3))]
    # a prefix of three log operations makes window overflow reachable inside the bound
    pre = [(O_LOG_A, 0), (O_LOG_B, 0), (O_LOG_A, 0)]
    return logger_run(small(maxlen, 2, 3), pre + ops)


shard(logger_view_sequences, "o0", range(NOP), OPN, globals())


# ------------------------------------------------------------------------------------------------ (4) freeze / thaw
@harness(pre=["ty in (0, 1, 127, 255)", "-3 <= ch <= 3", "0 <= ti <= 3"], post="_", timeout=300,
         note="freeze()/thaw: a logged message (U8 and S32 fields symbolic within small ranges since pickle realizes them, "
              "4 text payloads incl. non-ASCII and NUL) is equal after freeze() -> .message, keeps name/direction/packet id, "
              "and still matches the same field filter", covers=(_L + "LLUDPMessageLogEntry.freeze", _L + "LLUDPMessageLogEntry.message"))
def freeze_thaw(ty: int, ch: int, ti: int) -> bool:
    text = ["", "hi", "café", "a\x00b"][small(ti, 0, 3)]
    ty, ch = small(ty, 0, 255), small(ch, -3, 3)           # pickle is C: concrete values per path
    msg = Message("ChatFromViewer", Block("AgentData", AgentID=U1, SessionID=U1),
                  Block("ChatData", Message=text, Type=ty, Channel=ch), direction=Direction.OUT, packet_id=7)
    before = msg.to_dict()
    entry = LLUDPMessageLogEntry(msg, None, None)
    node = MessageFilterNode(("ChatFromViewer", "ChatData", "Channel"), "<", LiteralValue(1))
    m_before = bool(node.match(entry))
    entry.freeze()
    thawed = entry.message
    return thawed is not msg and thawed.to_dict() == before and thawed.name == "ChatFromViewer" and entry.seq == 7 \
        and entry.method == "OUT" and bool(node.match(entry)) == m_before


EVIDENCE = {
    "bounds": "filter trees of depth <=3 (64 shapes x 16 truth assignments) and flat 3-term chains; comparison matrix 10 "
              "operators x 7 field types x 5 literal types with ints in [-4, 260] and strs/bytes <= 2; logger: retention "
              "window 2..3, 3 fixed + 4 symbolic operations; freeze/thaw: 256 x 7 x 4 messages",
    "outside": "export/import (gzip + literal_eval) is exercised by the repo's own tests only; Meta/enum specifiers; subfield "
               "(4-level) selectors; HTTP/EQ entries",
    "assumptions": ["flat chains associate to the right as the grammar defines (the statement does not fix associativity)"],
}
