"""C02 — pass-through fidelity: unmodified datagrams re-encode byte-identically.

Engine A.  The *datagram itself* is the symbolic input: packet id, extra bytes, the body after a per-template
concrete prefix, and the ack tail are symbolic bytes; the flags byte comes from a catalogue (it is realized by
`send_flags & ...` anyway) and only the message-number bytes are pinned (template lookup is a dict on a hash).
The inspection order before re-encoding is a symbolic choice.
"""
from vlib.harness import harness
from hippolyzer.lib.base import exc
from hippolyzer.lib.base.message.template_dict import DEFAULT_TEMPLATE_DICT
from hippolyzer.lib.base.message.msgtypes import MsgType, MsgBlockType
import hippolyzer.lib.base.message.message as _message_mod
from hippolyzer.lib.base.message.udpserializer import UDPMessageSerializer
from hippolyzer.lib.base.message.udpdeserializer import UDPMessageDeserializer
import hippolyzer.lib.base.message.udpdeserializer as _deser_mod
import hippolyzer.lib.base.serialization as se
from hippolyzer.lib.base.settings import Settings
from vlib.adapt import coerce_bool_dunders

coerce_bool_dunders(se)
_message_mod.maybe_reload_templates = lambda: None
_deser_mod.JankStringyBytes = bytes      # C-level bytes-subclass constructor realizes symbolic bytes (stated stub, see C01)

_M = "hippolyzer.lib.base.message."
COVERS = (_M + "udpdeserializer:UDPMessageDeserializer._parse_message_header",
          _M + "udpdeserializer:UDPMessageDeserializer.parse_message_body",
          _M + "udpdeserializer:UDPMessageDeserializer._parse_var", _M + "udpdeserializer:UDPMessageDeserializer.deserialize",
          _M + "udpserializer:UDPMessageSerializer.serialize", _M + "message:Message.ensure_parsed",
          _M + "message:Message.blocks", _M + "template:MessageTemplateVariable.probably_text",
          _M + "template:MessageTemplateVariable.probably_binary")

SER = UDPMessageSerializer()
LAZY = Settings()
EAGER = Settings()
EAGER.ENABLE_DEFERRED_PACKET_PARSING = False

U0 = bytes(16)
U1 = bytes(range(1, 17))
# (template, concrete body prefix after the message number) -- the symbolic body bytes follow the prefix
CASES = [
    ("PacketAck", b""),                                  # Fixed frequency, Variable block of U32
    ("ChatFromViewer", U0 + U1),                         # Low; text heuristics on Message (Variable 2), U8, S32
    ("TestMessage", bytes(range(48))),                   # Low; Single U32 + Multiple(4) x 3 U32 (last 4 bytes symbolic)
    ("StartPingCheck", b""),                             # High; U8 + U32
    ("ImprovedInstantMessage", U0 + U1 + b"\x00" + U1 + b"\x01\x00\x00\x00" + U0 + bytes(12) + b"\x00\x00" + U0 +
     b"\x00\x00\x00\x00" + b"\x02a\x00" + b"\x01\x00\x00"),   # ... then BinaryBucket (Variable 2) + optional EstateBlock
    ("AgentAlertMessage", U1 + b"\x01"),                 # Low; small datagram with a text field (Message, Variable 1)
    ("ViewerFrozenMessage", b""),                        # Low; a single BOOL: every byte value 0..255 of a BOOL field
]
# symbolic body lengths explored per case (each is a fork; chosen around the exact-consumption boundaries)
LENS = [(0, 1, 5, 6), (0, 3, 7, 8), (0, 3, 4, 5), (0, 1, 5, 6), (0, 2, 3, 7), (0, 1, 3, 4), (0, 1, 2)]
FLAGCAT = [0x00, 0x50, 0x6F, 0x1F, 0x80, 0x90]     # plain: none / RELIABLE+ACK / all-but-ACK+junk / ACK+junk ; zero-coded: -/ACK


def small(x, lo, hi):
    for v in range(lo, hi + 1):
        if x == v:
            return v
    raise AssertionError("selector out of range")


def fix_len(b, maxlen):
    n = small(len(b), 0, maxlen)
    return bytes([b[i] for i in range(n)])


def wire_walk(tmpl, body):
    """Independent reference walker over the (expanded) body after msg-num+extra: returns True iff the body is
    consumed exactly by the template (every block present, counts consistent, no truncation, no trailing bytes)."""
    pos = 0
    n = len(body)
    for b in tmpl.blocks:
        if b.block_type == MsgBlockType.MBT_SINGLE:
            reps = 1
        elif b.block_type == MsgBlockType.MBT_MULTIPLE:
            reps = b.number
        else:
            if pos >= n:
                return False
            reps = body[pos]
            pos += 1
        for _ in range(reps):
            for v in b.variables:
                if v.type == MsgType.MVT_VARIABLE:
                    if pos + v.size > n:
                        return False
                    ln = body[pos] if v.size == 1 else body[pos] + 256 * body[pos + 1]
                    pos += v.size + ln
                elif v.type == MsgType.MVT_FIXED:
                    pos += v.size
                else:
                    pos += v.type.size
                if pos > n:
                    return False
    return pos == n


def pick_tail(tail, tl):
    """ack tail of length 0, 1 (count byte only) or 5 (one ack + count byte); content symbolic (also inconsistent counts)"""
    n = [0, 1, 5][small(tl, 0, 2)]
    return bytes([tail[i] for i in range(n)])


def body_region(tmpl, flags, d, nextra):
    """what the parser will treat as the message body (independent re-computation of the ack snipping)"""
    end = len(d)
    if flags & 0x10:
        end = len(d) - 1 - 4 * d[len(d) - 1]
    return d[6 + len(tmpl.freq_num_bytes) + nextra:end]


def pick_len(b, lens):
    for n in lens:
        if len(b) == n:
            return bytes([b[i] for i in range(n)])
    raise AssertionError("length not in the explored set")


def build(case, fl, pid: bytes, extra: bytes, body: bytes, tail: bytes, tl: int):
    name, prefix = CASES[case]
    tmpl = DEFAULT_TEMPLATE_DICT[name]
    flags = FLAGCAT[fl]
    extra = fix_len(extra, 2)
    body = pick_len(body, LENS[case])
    d = bytes([flags]) + pid + bytes([len(extra)]) + tmpl.freq_num_bytes + extra + prefix + body
    if flags & 0x10:
        d = d + pick_tail(tail, tl)
    return tmpl, flags, d, extra


def counts_small(case, body) -> bool:
    """count / length-prefix bytes of the symbolic body are restricted to {0..3, 255}: `range(count)` in the parser
    realizes the count (one path per value), so an unrestricted count byte costs 256 paths per harness."""
    if case == 0 and len(body) >= 1:                 # PacketAck: block count
        return body[0] <= 3 or body[0] == 255
    if case == 1 and len(body) >= 2:                 # ChatFromViewer: Message length (U16 LE)
        return (body[1] == 0 and body[0] <= 3) or (body[1] == 255 and body[0] == 255)
    if case == 4 and len(body) >= 2:                 # ImprovedInstantMessage: BinaryBucket length (U16 LE)
        return (body[1] == 0 and body[0] <= 3) or (body[1] == 255 and body[0] == 255)
    if case == 5 and len(body) >= 1:                 # AgentAlertMessage: Message length (U8)
        # text content bytes from {NUL, 'A', a UTF-8 lead byte, an invalid byte}: bytes.decode() realizes its operand
        for i in range(1, len(body)):
            if not (body[i] == 0 or body[i] == 0x41 or body[i] == 0xC3 or body[i] == 0xFF):
                return False
        return body[0] <= 3 or body[0] == 255
    return True


_PRE = ["0 <= case < 7", "0 <= fl < 4", "len(pid) == 4", "len(extra) <= 2", "len(body) in LENS[case]", "len(tail) == 5",
        "0 <= tl <= 2", "counts_small(case, body)"]
_RAISES = ()


def accept(deser, d):
    """header parse; None when the header parser rejects the datagram (any exception: not 'accepted')"""
    try:
        return deser.deserialize(d)
    except Exception:
        return None


@harness(pre=_PRE + ["len(body) <= 3"], post="_", timeout=400, thorough_timeout=1200,
         note="never inspected / header only: for EVERY datagram the header parser accepts (4 non-zero-coded flag patterns x "
              "symbolic id, extra <= 2, body <= 3 bytes (the body is copied, not read), ack tail of 0/1/5 symbolic bytes incl. inconsistent counts) "
              "re-encoding yields exactly the arriving bytes", covers=COVERS)
def untouched_identity(case: int, fl: int, pid: bytes, extra: bytes, body: bytes, tail: bytes, tl: int, peek: bool) -> bool:
    case, fl = small(case, 0, 6), small(fl, 0, 3)
    tmpl, flags, d, extra_c = build(case, fl, pid, extra, body, tail, tl)
    deser = UDPMessageDeserializer(settings=LAZY)
    msg = accept(deser, d)
    if msg is None:
        return True
    if peek:   # header-level inspection only
        if msg.name != tmpl.name or msg.send_flags != flags or bytes(msg.extra) != extra_c:
            return False
    return SER.serialize(msg) == d and msg.raw_body is not None


@harness(pre=_PRE + ["0 <= order <= 2", "len(extra) <= 1", "fl < 3", "tl != 1",
                     "case != 5 or (fl < 2 and tl == 0 and len(extra) == 0)"], post="_", timeout=400, thorough_timeout=1200,
         note="parsed (lazily, lazily twice, or eagerly) and not zero-coded: whenever the body region is consumed exactly by "
              "the template (independent reference walker), re-encoding yields exactly the arriving bytes; in every case where "
              "parsing succeeds the re-encoded datagram decodes to an equal message",
         covers=COVERS)
def parsed_identity(case: int, fl: int, pid: bytes, extra: bytes, body: bytes, tail: bytes, tl: int, order: int) -> bool:
    case, fl, order = small(case, 0, 6), small(fl, 0, 3), small(order, 0, 2)
    tmpl, flags, d, extra_c = build(case, fl, pid, extra, body, tail, tl)
    deser = UDPMessageDeserializer(settings=EAGER if order == 2 else LAZY)
    try:
        msg = deser.deserialize(d)
        msg.blocks
        if order == 1:
            msg.blocks
    except Exception:
        return True        # rejected headers / unparseable bodies: see failed_parse_still_forwardable
    out = SER.serialize(msg)
    if wire_walk(tmpl, body_region(tmpl, flags, d, len(extra_c))) and out != d:
        return False
    deser2 = UDPMessageDeserializer(settings=LAZY)
    again = deser2.deserialize(out)
    return again.name == msg.name and again.to_dict() == msg.to_dict() and again.send_flags == msg.send_flags \
        and again.packet_id == msg.packet_id and tuple(again.acks) == tuple(msg.acks) and bytes(again.extra) == bytes(msg.extra)


@harness(pre=_PRE + ["len(extra) <= 1", "fl < 3", "tl != 1"], post="_", timeout=400, thorough_timeout=1200,
         note="a datagram whose header is valid but whose body cannot be parsed remains forwardable byte-identically after "
              "the failed parse attempt (lazy .blocks access raised), also after a second failed attempt",
         covers=COVERS)
def failed_parse_still_forwardable(case: int, fl: int, pid: bytes, extra: bytes, body: bytes, tail: bytes, tl: int) -> bool:
    case, fl = small(case, 0, 6), small(fl, 0, 3)
    tmpl, flags, d, _ = build(case, fl, pid, extra, body, tail, tl)
    deser = UDPMessageDeserializer(settings=LAZY)
    msg = accept(deser, d)
    if msg is None:
        return True
    try:
        msg.blocks
    except Exception:
        if SER.serialize(msg) != d:
            return False
        try:
            msg.blocks
        except Exception:
            return SER.serialize(msg) == d
        return False       # the same bytes cannot fail once and parse the second time
    return True


ZC = [UDPMessageSerializer.zero_code_compress, UDPMessageDeserializer.zero_code_expand]


@harness(pre=["0 <= case < 4", "fl in (4, 5)", "len(pid) == 4", "len(extra) <= 1", "len(body) <= 3", "len(tail) == 5", "counts_small(case, body)",
              "tl in (0, 2)", "0 <= order <= 1"], post="_", timeout=400, thorough_timeout=1500,
         note="zero-coded datagrams (body <= 3 symbolic bytes through the real expand/compress): never parsed => identical "
              "bytes; parsed => identical bytes whenever the zero-coding is the canonical one (compress(expand(raw)) == raw) "
              "and the expanded body is consumed exactly",
         covers=COVERS + (_M + "udpserializer:UDPMessageSerializer.zero_code_compress",
                          _M + "udpdeserializer:UDPMessageDeserializer.zero_code_expand"))
def zerocoded_identity(case: int, fl: int, pid: bytes, extra: bytes, body: bytes, tail: bytes, tl: int, order: int) -> bool:
    case, fl, order = small(case, 0, 3), small(fl, 4, 5), small(order, 0, 1)
    name, prefix = CASES[case]
    tmpl = DEFAULT_TEMPLATE_DICT[name]
    flags = FLAGCAT[fl]
    extra = fix_len(extra, 1)
    body = fix_len(body, 3)
    # the wire body is arbitrary bytes claimed to be zero-coded; msgnum + extra + prefix are written in canonical coding
    head_plain = tmpl.freq_num_bytes + extra + prefix
    wire_body = bytes(ZC[0](head_plain)) + body
    d = bytes([flags]) + pid + bytes([len(extra)]) + wire_body
    if flags & 0x10:
        d = d + pick_tail(tail, tl)
    deser = UDPMessageDeserializer(settings=LAZY)
    msg = accept(deser, d)
    if msg is None:
        return True
    if order == 0:
        return SER.serialize(msg) == d
    raw = bytes(msg.raw_body)
    try:
        msg.blocks
    except Exception:
        return SER.serialize(msg) == d
    expanded = bytes(ZC[1](raw))
    canonical = bytes(ZC[0](expanded)) == raw
    consumed = wire_walk(tmpl, expanded[len(tmpl.freq_num_bytes) + len(extra):])
    out = SER.serialize(msg)
    return out == d or not (canonical and consumed)


@harness(pre=["len(body) <= 2", "len(pid) == 4"], post="_", timeout=300,
         note="quick-tier zero-coded probe on StartPingCheck (flags 0x80, no extra, no acks, body <= 2 symbolic bytes through "
              "the real expand): never parsed => identical; lazy parse that fails (truncated) => still forwardable "
              "byte-identically; parsed + canonical + consumed exactly => identical",
         covers=COVERS + (_M + "udpserializer:UDPMessageSerializer.zero_code_compress",
                          _M + "udpdeserializer:UDPMessageDeserializer.zero_code_expand"))
def zerocoded_small_probe(pid: bytes, body: bytes, parse: bool) -> bool:
    tmpl = DEFAULT_TEMPLATE_DICT["StartPingCheck"]
    body = fix_len(body, 2)
    d = bytes([0x80]) + pid + b"\x00" + bytes(ZC[0](tmpl.freq_num_bytes)) + body
    deser = UDPMessageDeserializer(settings=LAZY)
    msg = accept(deser, d)
    if msg is None:
        return True
    if not parse:
        return SER.serialize(msg) == d
    raw = bytes(msg.raw_body)
    try:
        msg.blocks
    except Exception:
        return SER.serialize(msg) == d
    expanded = bytes(ZC[1](raw))
    canonical = bytes(ZC[0](expanded)) == raw
    consumed = wire_walk(tmpl, expanded[len(tmpl.freq_num_bytes):])
    return SER.serialize(msg) == d or not (canonical and consumed)


@harness(pre=["len(pid) == 4", "(40 <= k) & (k <= 60)", "len(lead) <= 1"], post="_", timeout=300,
         note="zero-coded datagrams whose body expands beyond the decoder's allocation cap (0x3000): StartPingCheck header, an "
              "optional symbolic leading body byte, a zero marker followed by k in 40..60 wrap continuations (k solver-chosen: "
              "around and beyond the cap) and a count byte: whether the lazy parse succeeds, fails or the decoder refuses, the "
              "datagram is still forwardable byte-identically afterwards, also after a second attempt",
         covers=COVERS + (_M + "udpdeserializer:UDPMessageDeserializer.zero_code_expand",
                          _M + "udpdeserializer:UDPMessageDeserializer.parse_message_body"))
def zerocoded_overcap_forwardable(pid: bytes, k: int, lead: bytes) -> bool:
    tmpl = DEFAULT_TEMPLATE_DICT["StartPingCheck"]
    k = small(k, 40, 60)
    lead = fix_len(lead, 1)
    if len(lead) == 1 and lead[0] == 0:
        return True                      # a leading zero byte would change the run structure: not this obligation's shape
    d = bytes([0x80]) + pid + b"\x00" + bytes(ZC[0](tmpl.freq_num_bytes)) + lead + b"\x00" + b"\x00" * k + b"\x05"
    deser = UDPMessageDeserializer(settings=LAZY)
    msg = accept(deser, d)
    if msg is None:
        return True
    for _ in range(2):
        try:
            msg.blocks
        except Exception:
            if SER.serialize(msg) != d:
                return False
            continue
        # parsed: trailing garbage after the template's fields is dropped by design, nothing to demand
        return True
    return True


EVIDENCE = {
    "bounds": "count/length-prefix bytes inside the symbolic body restricted to {0..3, 255 / 65535}; 7 templates (Fixed/Low/High frequency; Variable, Multiple, optional trailing block, text heuristics, a lone BOOL), 4+2 flag "
              "patterns incl. unknown low bits, packet id 4 symbolic bytes, extra 0..2 symbolic bytes, body 0..6 symbolic "
              "bytes after a concrete prefix (zero-coded: 0..4), ack tail of 0/1/5 symbolic bytes (so also inconsistent ack "
              "counts), inspection order {never, header, lazy, lazy twice, eager}",
    "outside": "longer fields; the message-number bytes are pinned per template; JankStringyBytes wrapper stubbed by bytes",
    "assumptions": ["trailing unread bytes and inconsistent block counts are dropped by design: identity is only demanded when "
                    "an independent wire walker consumes the body exactly"],
}

from vlib.harness import shard  # noqa: E402
_CN = [c[0] for c in CASES]
# quick tier: the two small-datagram templates (PacketAck: Fixed frequency + Variable block; StartPingCheck: High
# frequency); the larger datagrams cost seconds per path and run in the thorough tier only.
_Q = (0, 3)
shard(untouched_identity, "case", range(7), _CN, globals(), quick=_Q)
for _ci, _w in enumerate(shard(parsed_identity, "case", range(7), _CN, globals(), quick=(0, 3, 5, 6))):
    # quick: StartPingCheck lazy, AgentAlertMessage (text field) lazy, ViewerFrozenMessage (BOOL) lazy; rest thorough
    _q = {3: (0,), 5: (0,), 6: (0,)}.get(_ci, ())
    shard(_w, "order", range(3), ["lazy", "lazy_twice", "eager"], globals(), quick=_q)
shard(failed_parse_still_forwardable, "case", range(7), _CN, globals(), quick=_Q)
for _w in shard(zerocoded_identity, "case", range(4), _CN[:4], globals(), quick=_Q):
    shard(_w, "order", range(2), ["never_parsed", "parsed"], globals(), quick=())      # thorough only
