"""C19 — client endpoint: always ack, dispatch once, reliable sends complete on ack only.

Engine A: symbolic circuit pre-state (ids already seen, next packet id, retry budget) + up to three symbolic
arrivals / acks / clock advances through the real HippoClientProtocol.datagram_received and Circuit.  Acknowledgement
forms for reliable sends: appended acks on an ordinary packet, PacketAck body, and a PacketAck that itself carries an
appended ack (one id in the body, one in the tail).
"""
import asyncio
from collections import deque

from vlib.harness import harness
import hippolyzer.lib.base.message.message as _message_mod
import hippolyzer.lib.base.message.circuit as circuit_mod
from hippolyzer.lib.base.message.circuit import Circuit
from hippolyzer.lib.base.message.message import Message, Block
from hippolyzer.lib.base.message.message_handler import MessageHandler
from hippolyzer.lib.base.message.msgtypes import PacketFlags
from hippolyzer.lib.base.network.transport import Direction
from hippolyzer.lib.base.settings import Settings
from hippolyzer.lib.client.hippo_client import HippoClientProtocol

_message_mod.maybe_reload_templates = lambda: None
_LOOP = asyncio.new_event_loop()
asyncio.set_event_loop(_LOOP)

_Q = "hippolyzer.lib.base.message.circuit:Circuit."
COVERS = ("hippolyzer.lib.client.hippo_client:HippoClientProtocol.datagram_received", _Q + "track_reliable", _Q + "send_acks",
          _Q + "collect_acks", _Q + "send", _Q + "send_reliable", _Q + "resend_unacked", _Q + "prepare_message",
          "hippolyzer.lib.base.message.message_handler:MessageHandler.handle", "hippolyzer.lib.base.events:Event.notify")


# ---- clock shim: Circuit reads time through the module-level name `dt` -------------------------------------------
class _T:
    def __init__(self, s):
        self.s = s

    def __sub__(self, other):
        return _D(self.s - other.s)


class _D:
    def __init__(self, s):
        self.s = s

    def __lt__(self, other):
        return self.s < other.s

    def __ge__(self, other):
        return self.s >= other.s


class _Clock:
    now_s = 0

    class datetime:
        @staticmethod
        def now():
            return _T(_Clock.now_s)

    @staticmethod
    def timedelta(seconds=0):
        return _D(seconds)


circuit_mod.dt = _Clock


class Snap:
    """what went on the wire, as a value (the byte codec is C01's subject)"""
    def __init__(self, msg: Message):
        self.name = msg.name
        self.packet_id = msg.packet_id
        self.flags = int(msg.send_flags)
        self.acks = tuple(msg.acks)
        self.ids = tuple(b["ID"] for b in msg["Packets"]) if msg.name == "PacketAck" else ()
        self.direction = msg.direction


class SnapSerializer:
    def serialize(self, msg):
        return Snap(msg)


class Recorder:
    def __init__(self):
        self.sent = []

    def send_packet(self, packet):
        self.sent.append(packet.data)


class _SM:
    settings = Settings()


class Region:
    def __init__(self, circuit):
        self.circuit = circuit
        self.message_handler = MessageHandler(take_by_default=False)


class Session:
    session_manager = _SM()

    def __init__(self):
        self.message_handler = MessageHandler(take_by_default=False)
        self.region = None

    def region_by_circuit_addr(self, addr):
        return self.region


class _Deser:
    def __init__(self):
        self.queue = []

    def deserialize(self, data):
        return self.queue.pop(0)


SESSION = Session()
PROTO = HippoClientProtocol(SESSION)
PROTO.deserializer = _Deser()
SIM = ("127.0.0.1", 13000)


class Counter:
    def __init__(self):
        self.n = 0

    def __call__(self, msg):
        self.n += 1


def fresh():
    rec = Recorder()
    c = Circuit(("127.0.0.1", 1), SIM, rec)
    c.serializer = SnapSerializer()
    region = Region(c)
    SESSION.region = region
    SESSION.message_handler = MessageHandler(take_by_default=False)
    _Clock.now_s = 0
    counters = [Counter() for _ in range(4)]
    SESSION.message_handler.subscribe("ChatFromSimulator", counters[0])
    SESSION.message_handler.subscribe("*", counters[1])
    region.message_handler.subscribe("ChatFromSimulator", counters[2])
    region.message_handler.subscribe("*", counters[3])
    return c, rec, counters


def small(x, lo, hi):
    for v in range(lo, hi + 1):
        if x == v:
            return v
    raise AssertionError("selector out of range")


def arrive(name, pid, reliable, resent, acks=(), ack_ids=()):
    flags = (int(PacketFlags.RELIABLE) if reliable else 0) | (int(PacketFlags.RESENT) if resent else 0) | \
        (int(PacketFlags.ACK) if acks else 0)
    if name == "PacketAck":
        msg = Message("PacketAck", *[Block("Packets", ID=i) for i in ack_ids], packet_id=pid, flags=flags, acks=tuple(acks))
    else:
        msg = Message(name, Block("ChatData", fill_missing=True), packet_id=pid, flags=flags, acks=tuple(acks))
    PROTO.deserializer.queue.append(msg)
    PROTO.datagram_received(b"", SIM)


@harness(pre=["0 <= ns <= 2", "1 <= n <= 3", "(p0 >= 0) & (p1 >= 0) & (p2 >= 0) & (s0 >= 0) & (s1 >= 0)"], post="_", timeout=300,
         note="ack-then-deduplicate: from ANY set of <=2 already-seen reliable ids and ANY <=3 arrivals (symbolic ids incl. "
              "duplicates/reordering, reliable and resent bits symbolic): every reliable arrival is acknowledged by exactly one "
              "PacketAck carrying exactly its id, every time; each of the four subscribers (session/region x named/wildcard) "
              "gets a reliable id at most once overall and not at all if it was already seen, and every unreliable arrival once",
         covers=COVERS)
def ack_and_dedupe(ns: int, s0: int, s1: int, n: int, p0: int, r0: bool, x0: bool, p1: int, r1: bool, x1: bool,
                   p2: int, r2: bool, x2: bool) -> bool:
    c, rec, counters = fresh()
    ns, n = small(ns, 0, 2), small(n, 1, 3)
    pre_seen = [s0, s1][:ns]
    c.seen_reliable = deque(pre_seen, maxlen=1000)
    seen = list(pre_seen)
    expect_deliveries = 0
    arrivals = [(p0, r0, x0), (p1, r1, x1), (p2, r2, x2)][:n]
    for pid, rel, resent in arrivals:
        before = len(rec.sent)
        arrive("ChatFromSimulator", pid, rel, resent)
        new = rec.sent[before:]
        if rel:
            if len(new) != 1 or new[0].name != "PacketAck" or new[0].ids != (pid,) or new[0].direction != Direction.OUT:
                return False
            if pid not in seen:
                expect_deliveries += 1
                seen.append(pid)
        else:
            if new:
                return False
            expect_deliveries += 1
    return all(cn.n == expect_deliveries for cn in counters)


@harness(pre=["base in (0, 7, 4294967290)", "1 <= tries <= 3", "0 <= form <= 3", "0 <= rounds <= 3", "base - 1 <= a0 <= base + 1", "a1 == a0 or a1 == a0 + 1", "step == 2 or step == 3"], post="_",
         timeout=300,
         note="reliable sends: two send_reliable() calls from packet_id_base in {0, 7, 2^32-6} (the id is a dict key: hashed, hence realized) get strictly increasing ids; a future completes "
              "exactly when an arrival acknowledges its id (appended acks on a chat packet, PacketAck body, or a PacketAck with the first id in its body and the "
              "second appended to its tail; two symbolic ack ids around the issued ids: right, wrong and duplicate ids - in the mixed form: a pending id only in the tail, only in the body, one in each, the same id in both), "
              "fails exactly when its retry budget (symbolic 1..3) is spent, is resent with the same id + RESENT flag exactly in the "
              "timer rounds (clock step 2 s or 3 s, interval 3 s) where the interval has elapsed, and never afterwards",
         covers=COVERS)
def reliable_send_completion(base: int, tries: int, form: int, a0: int, a1: int, rounds: int, step: int) -> bool:
    c, rec, _ = fresh()
    c.packet_id_base = base
    tries, form, rounds = small(tries, 1, 3), small(form, 0, 3), small(rounds, 0, 3)
    m0 = Message("ChatFromViewer", Block("ChatData", fill_missing=True))
    m1 = Message("ChatFromViewer", Block("ChatData", fill_missing=True))
    f0 = c.send_reliable(m0)
    f1 = c.send_reliable(m1)
    id0, id1 = m0.packet_id, m1.packet_id
    if not (id0 == base and id1 == base + 1 and c.packet_id_base == base + 2):
        return False
    if not all(s.flags & int(PacketFlags.RELIABLE) for s in rec.sent) or [s.packet_id for s in rec.sent] != [id0, id1]:
        return False
    for info in c.unacked_reliable.values():
        info.tries_left = tries
    done0 = done1 = False
    if form == 1:
        arrive("ChatFromSimulator", 7, False, False, acks=(a0, a1))
    elif form == 2:
        arrive("PacketAck", 7, False, False, ack_ids=(a0, a1))
    elif form == 3:
        # the tail ack list applies to any packet, a PacketAck included: body acknowledges a0, tail acknowledges a1
        arrive("PacketAck", 7, False, False, acks=(a1,), ack_ids=(a0,))
    if form != 0:
        done0 = (a0 == id0) or (a1 == id0)
        done1 = (a0 == id1) or (a1 == id1)
    if f0.done() != done0 or f1.done() != done1:
        return False
    sent_before = len(rec.sent)
    # reference model of the resend timer: per pending message (last_resent, tries_left)
    pend = {pid: [0, tries] for pid, done in ((id0, done0), (id1, done1)) if not done}
    exp = []
    failed = set()
    now = 0
    for r in range(rounds):
        now += step
        _Clock.now_s = now
        c.resend_unacked()
        for pid in (id0, id1):
            st = pend.get(pid)
            if st is None or now - st[0] < 3:          # resend_every == 3.0
                continue
            st[1] -= 1
            if st[1] == 0:
                del pend[pid]
                failed.add(pid)
            else:
                st[0] = now
                exp.append(pid)
    resends = rec.sent[sent_before:]
    got = [s.packet_id for s in resends if s.name == "ChatFromViewer"]
    if got != exp or not all(s.flags & int(PacketFlags.RESENT) for s in resends):
        return False
    for fut, pid, done in ((f0, id0, done0), (f1, id1, done1)):
        if done:
            if not (fut.done() and fut.exception() is None):
                return False
        elif pid in failed:
            if not (fut.done() and isinstance(fut.exception(), TimeoutError)):
                return False
        elif fut.done():
            return False
    return True



@harness(pre=["base in (0, 7)", "0 <= form <= 2", "base - 1 <= a0 <= base + 1", "p >= 0", "0 <= times <= 2"], post="_", timeout=300,
         note="acks riding on a retransmission: ONE reliable send outstanding; the acknowledgement arrives appended to (form 0) an "
              "unreliable chat packet, (form 1) a reliable chat packet with ANY id p, (form 2) a reliable PacketAck-less carrier that is "
              "flagged RESENT - and the carrier id has already been seen 0, 1 or 2 times before (so the arrival is suppressed as a "
              "duplicate): the send completes exactly when the appended id is its id, whether or not the carrier is dispatched; the "
              "carrier is acknowledged every time and dispatched to each subscriber at most once overall",
         covers=COVERS)
def acks_on_retransmission(base: int, form: int, a0: int, p: int, times: int) -> bool:
    c, rec, counters = fresh()
    c.packet_id_base = base
    form, times = small(form, 0, 2), small(times, 0, 2)
    m0 = Message("ChatFromViewer", Block("ChatData", fill_missing=True))
    f0 = c.send_reliable(m0)
    id0 = m0.packet_id
    rel = form != 0
    for _ in range(times):              # earlier copies of the carrier, without any appended ack
        arrive("ChatFromSimulator", p, rel, False)
    if f0.done():
        return False
    before = len(rec.sent)
    arrive("ChatFromSimulator", p, rel, form == 2, acks=(a0,))
    new = rec.sent[before:]
    if rel:
        if len(new) != 1 or new[0].name != "PacketAck" or new[0].ids != (p,):
            return False
    elif new:
        return False
    if f0.done() != (a0 == id0):
        return False
    if f0.done() and f0.exception() is not None:
        return False
    expect = 1 if rel else times + 1
    return all(cn.n == expect for cn in counters) and len(c.unacked_reliable) == (0 if a0 == id0 else 1)


from vlib.harness import shard  # noqa: E402
for _w in shard(reliable_send_completion, "form", range(4),
                ["no_ack", "appended_acks", "packetack", "packetack_plus_appended"], globals()):
    shard(_w, "rounds", range(4), ["0rounds", "1round", "2rounds", "3rounds"], globals())


# ---------------------------------------------------------------------------------------------------------------------
# the dispatch point itself: hippolyzer.lib.base.events.Event.notify under MessageHandler
from harness import eventfix as _ef  # noqa: E402


@harness(pre=["0 <= b0 < 9", "0 <= b1 < 9", "0 <= b2 < 9", "1 <= n <= 3"], post="_", timeout=300,
         note="Event.notify (dispatch exactly once at the client endpoint's session / region MessageHandler): 1..3 subscribers, each with a symbolically chosen behaviour out of "
              "{normal, returns True (asks to be unsubscribed), one-shot, raises, predicate false, predicate raises, unsubscribes "
              "itself inside the handler and returns True, unsubscribes itself and returns None, returns a value whose truth test "
              "raises}, followed by an observer subscribed last; two notifications: every subscriber registered when a notification "
              "starts whose predicate passes is called exactly once, in subscription order, whatever the others do; notify() "
              "never raises; exactly the subscribers that neither left nor were one-shot remain for the second notification",
         covers=("hippolyzer.lib.base.events:Event.notify", "hippolyzer.lib.base.events:Event.unsubscribe",
                 "hippolyzer.lib.base.events:Event.subscribe"))
def event_notify_matrix(b0: int, b1: int, b2: int, n: int) -> bool:
    return _ef.notify_matrix(b0, b1, b2, n)


shard(event_notify_matrix, "b0", range(9), _ef.LABELS, globals())


EVIDENCE = {
    "bounds": "<=2 ids in the dedupe window initially, <=3 arrivals, 2 reliable sends acknowledged by one arrival in one of three forms "
              "(appended acks, PacketAck body, PacketAck body + appended ack), <=3 resend rounds, retry budget 1..3; "
              "packet ids and next-id counter are unbounded symbolic integers",
    "outside": "histories longer than the 1000-entry dedupe window; byte codec (snapshot serializer; C01); deserializer "
               "stubbed to hand over the prepared Message",
    "assumptions": ["clock read through circuit.dt is replaced by a harness-controlled clock"],
}
