"""C12 — LLSD forms are faithful: messages over LLSD and the LLSD codecs round-trip.

Engine A.  (a) templated message <-> LLSD (event-queue) dict form for every template, harnesses generated from the live
template (symbolic U32/U64/S64 values -- the types LLSD cannot express and the packer re-encodes -- symbolic block counts,
catalogue values for the rest); XML form exercised with the solver-chosen values.  (b) binary formatter / parser on LLSD
trees built from symbolic choices (symbolic S32 / bool / short str / binary leaves, catalogue reals / UUIDs / dates /
URIs / vectors).  (c) notation output never contains a raw newline.
"""
import datetime
import linecache

from vlib.harness import harness, shard
import harness.c01 as c01
from harness.c01 import small, norm
from hippolyzer.lib.base import llsd
from hippolyzer.lib.base.datatypes import UUID, Vector3, Quaternion
from hippolyzer.lib.base.message.llsd_msg_serializer import LLSDMessageSerializer
from hippolyzer.lib.base.message.data_packer import LLSDDataPacker
from hippolyzer.lib.base.message.message import Message, Block
from hippolyzer.lib.base.message.msgtypes import MsgType, MsgBlockType
from hippolyzer.lib.base.message.template_dict import DEFAULT_TEMPLATE_DICT
import hippolyzer.lib.base.serialization as se
from vlib.adapt import untraced_constructor, uuid_realizes_bytes
import llsd.base as _llsd_base

untraced_constructor(_llsd_base.LLSDBaseFormatter)
import llsd.serde_notation as _sn  # noqa: E402
import llsd.serde_binary as _sb  # noqa: E402
untraced_constructor(_sn.LLSDNotationParser)
untraced_constructor(_sb.LLSDBinaryParser)
uuid_realizes_bytes()

_M = "hippolyzer.lib.base.message."
COVERS_MSG = (_M + "llsd_msg_serializer:LLSDMessageSerializer.serialize", _M + "llsd_msg_serializer:LLSDMessageSerializer.deserialize",
              _M + "llsd_msg_serializer:LLSDMessageSerializer._yield_vars", _M + "data_packer:_make_llsd_tuplecoord_spec",
              _M + "data_packer:LLSDDataPacker", _M + "message:Message.from_dict", _M + "message:Message.to_dict")
COVERS_BIN = ("hippolyzer.lib.base.llsd:_format_binary_recurse", "hippolyzer.lib.base.llsd:format_binary",
              "hippolyzer.lib.base.llsd:parse_binary", "hippolyzer.lib.base.llsd:HippoLLSDBinaryParser._parse_string",
              "hippolyzer.lib.base.llsd:HippoLLSDBinaryParser._parse_date",
              "hippolyzer.lib.base.serialization:BufferedLLSDBinaryParser._parse_array")

SER = LLSDMessageSerializer()
PACKED = {MsgType.MVT_U32: (0, 2**32 - 1), MsgType.MVT_U64: (0, 256 * 8 - 1), MsgType.MVT_S64: (0, 256 * 8 - 1)}
MAXSYM = 6


def build_message(name, k, n0, vals):
    tmpl = DEFAULT_TEMPLATE_DICT[name]
    slots, n_int, n_blob, vblocks = c01.LAYOUTS[name]
    k = small(k, 0, 1)
    n0 = small(n0, 0, 2)
    blocks = []
    si = 0
    vi = 0
    for b in tmpl.blocks:
        if b.block_type == MsgBlockType.MBT_SINGLE:
            reps, maxreps = 1, 1
        elif b.block_type == MsgBlockType.MBT_MULTIPLE:
            reps, maxreps = b.number, b.number
        else:
            reps, maxreps = n0, 2
        for r in range(maxreps):
            bvars = {}
            for v in b.variables:
                s = slots[si]
                si += 1
                if v.type in PACKED:
                    sym = vals[vi] if vi < len(vals) else None
                    vi += 1
                    raw = sym if sym is not None else c01.boundary_int(v, k + s.idx) % (PACKED[v.type][1] + 1)
                    val = c01.int_value(v, raw)
                elif s.kind == "int":
                    val = c01.int_value(v, c01.boundary_int(v, k + s.idx))
                elif v.type == MsgType.MVT_FIXED:
                    val = c01.cat_value(v, k + si)
                elif v.type == MsgType.MVT_VARIABLE:
                    val = ["", "text", "café"][(k + si) % 3] if (v.probably_text and not v.probably_binary) else \
                        [b"", b"\x00\xff"][(k + si) % 2]
                else:
                    val = c01.cat_value(v, k + si)
                if r < reps:
                    bvars[v.name] = val
            if r < reps:
                blocks.append(Block(b.name, **bvars))
    msg = Message(name)
    for b in tmpl.blocks:
        if b.block_type == MsgBlockType.MBT_VARIABLE:
            msg.create_block_list(b.name)
    for blk in blocks:
        msg.add_block(blk)
    return msg


def msg_equal(a, b) -> bool:
    return a.name == b.name and c01.msg_norm(a) == c01.msg_norm(b)


def roundtrip_dict(name, k, n0, vals) -> bool:
    msg = build_message(name, k, n0, vals)
    as_dict = SER.serialize(msg, as_dict=True)
    back = SER.deserialize(as_dict)
    return msg_equal(back, msg)


def roundtrip_xml(name, k, n0) -> bool:
    msg = build_message(name, k, n0, [])
    xml = SER.serialize(msg)
    back = SER.deserialize(xml)
    # XML cannot carry -0.0 / NUL etc. exactly in every field; compare through the dict form of both
    return SER.serialize(back, as_dict=True) == SER.serialize(msg, as_dict=True)


def _generate():
    for tmpl in DEFAULT_TEMPLATE_DICT:
        nsym = 0
        for b in tmpl.blocks:
            reps = b.number if b.block_type == MsgBlockType.MBT_MULTIPLE else (2 if b.block_type == MsgBlockType.MBT_VARIABLE else 1)
            nsym += reps * sum(1 for v in b.variables if v.type in PACKED)
        nsym = min(nsym, MAXSYM)
        params = ["k: int", "n0: int"] + [f"v{i}: int" for i in range(nsym)]
        rngs = ["(0 <= k) & (k <= 1) & (0 <= n0) & (n0 <= 2)"]
        # ranges of the symbolic slots in template order
        j = 0
        for b in tmpl.blocks:
            reps = b.number if b.block_type == MsgBlockType.MBT_MULTIPLE else (2 if b.block_type == MsgBlockType.MBT_VARIABLE else 1)
            for r in range(reps):
                for v in b.variables:
                    if v.type in PACKED and j < nsym:
                        lo, hi = PACKED[v.type]
                        rngs.append(f"({lo} <= v{j}) & (v{j} <= {hi})")
                        j += 1
        src = (f"def L_{tmpl.name}({', '.join(params)}) -> bool:\n"
               f"    return roundtrip_dict({tmpl.name!r}, k, n0, [{', '.join(f'v{i}' for i in range(nsym))}])\n")
        fname = f"<c12-generated:{tmpl.name}>"
        linecache.cache[fname] = (len(src), None, src.splitlines(True), fname)
        exec(compile(src, fname, "exec"), globals())
        fn = globals()[f"L_{tmpl.name}"]
        fn.__module__ = __name__
        harness(pre=[" & ".join(rngs)], post="_", timeout=240, thorough_timeout=600, covers=COVERS_MSG,
                note=f"{tmpl.name} -> LLSD dict -> message: equal to the original; {nsym} symbolic U32/U64/S64 values (full range; "
                     "64-bit: catalogue base + symbolic byte), Variable-block count 0..2, other fields from boundary/"
                     "catalogue constants (2 rotations)")(fn)


_generate()

CORE = ["ChatFromViewer", "AgentUpdate", "ObjectUpdate", "EnableSimulator", "TeleportFinish", "CrossedRegion", "ParcelProperties",
        "AvatarAppearance", "ImprovedTerseObjectUpdate", "SimStats", "MoneyBalanceReply", "AgentMovementComplete",
        "EstablishAgentCommunication", "ScriptDialog", "CameraConstraint", "ObjectUpdateCached", "CoarseLocationUpdate",
        "AvatarSitResponse", "RegionHandshake", "ViewerEffect"]
XML_CORE = ["ChatFromViewer", "EnableSimulator", "TeleportFinish", "ParcelProperties", "AgentUpdate", "ScriptDialog"]


@harness(pre=["0 <= t < 6", "0 <= k <= 1", "0 <= n0 <= 2"], post="_", timeout=300,
         note="XML form (ElementTree is C: values realized, so this is exercised with solver-chosen selectors, not decided over "
              "values): 6 templates x 2 value rotations x block counts 0..2 survive message -> LLSD XML -> message",
         covers=COVERS_MSG)
def xml_form(t: int, k: int, n0: int) -> bool:
    return roundtrip_xml(XML_CORE[small(t, 0, 5)], k, n0)


# ------------------------------------------------------------------------------------------------ (b) binary codec
U1 = UUID("01234567-89ab-cdef-0123-456789abcdef")
DATES = [datetime.datetime(1970, 1, 1, tzinfo=datetime.timezone.utc),
         datetime.datetime(2024, 2, 29, 23, 59, 59, tzinfo=datetime.timezone.utc),
         datetime.datetime(2001, 9, 9, 1, 46, 40, 500000, tzinfo=datetime.timezone.utc),
         # an aware datetime with a non-zero offset is the same instant as its UTC rendering
         datetime.datetime(2024, 2, 29, 12, 34, 56, tzinfo=datetime.timezone(datetime.timedelta(hours=5, minutes=30)))]
REALS = [0.0, -0.0, 1.5, -1.25e-3, 1.7976931348623157e308]
NLEAF = 11
PLAIN_DATES = [datetime.date(2024, 2, 29), datetime.date(1970, 1, 1), datetime.date(2001, 7, 4)]


def leaf(kind, i, s: str, b: bytes, sel):
    if kind == 0:
        return i
    if kind == 1:
        return i % 2 == 0
    if kind == 2:
        return s
    if kind == 3:
        return llsd.binary(b)
    if kind == 4:
        return REALS[sel % len(REALS)]
    if kind == 5:
        return U1
    if kind == 6:
        return DATES[sel % len(DATES)]
    if kind == 7:
        return llsd.uri("http://example.com/" + "x" * (sel % 3))
    if kind == 8:
        return None
    if kind == 10:
        return PLAIN_DATES[sel % len(PLAIN_DATES)]
    return Vector3(1.0, -2.5, 0.0)


def same_llsd(a, b) -> bool:
    """same value AND same LLSD type at every node"""
    if isinstance(b, Vector3):
        return isinstance(a, list) and [float(x) for x in a] == list(b.data()) and all(isinstance(x, float) for x in a)
    if isinstance(b, bool) or isinstance(a, bool):
        return isinstance(a, bool) and isinstance(b, bool) and a == b
    if isinstance(b, float):
        return isinstance(a, float) and c01.fbits(a) == c01.fbits(b)
    if isinstance(b, llsd.binary):
        return isinstance(a, llsd.binary) and bytes(a) == bytes(b)
    if isinstance(b, llsd.uri):
        return isinstance(a, llsd.uri) and str(a) == str(b)
    if isinstance(b, UUID):
        return isinstance(a, UUID) and a == b
    if isinstance(b, datetime.datetime):
        return isinstance(a, datetime.datetime) and a == b and a.utcoffset() == datetime.timedelta(0)
    if isinstance(b, datetime.date):
        # a plain date is an LLSD date at midnight UTC of that day, whatever the process time zone
        return isinstance(a, datetime.datetime) and a.utcoffset() == datetime.timedelta(0) and \
            a == datetime.datetime(b.year, b.month, b.day, tzinfo=datetime.timezone.utc)
    if isinstance(b, (list, tuple)):
        return isinstance(a, list) and len(a) == len(b) and all(same_llsd(x, y) for x, y in zip(a, b))
    if isinstance(b, dict):
        return isinstance(a, dict) and list(a.keys()) == list(b.keys()) and all(same_llsd(a[k], b[k]) for k in b)
    if b is None:
        return a is None
    return type(a) is type(b) and a == b


STRS = ["", "a", "é\n", "x\x00y"]
BINS = [b"", b"\x00", b"\xff\x01"]


@harness(pre=["0 <= shape <= 3", "0 <= k0 < NLEAF", "0 <= k1 < NLEAF", "i0 in (-2**31, -1, 0, 1, 2**31 - 1)", "i1 == 7",
              "s0 == 0", "b0 == 0", "0 <= sel <= 4"], post="_", timeout=400,
         note="binary LLSD: trees {leaf, [l0, l1], {a: l0, b: [l1]}, [[l0], {k: l1}]} over 11 leaf kinds (S32 boundary values, bool; "
              "catalogue strs incl. non-ASCII/newline/NUL, binaries, reals incl. -0.0, UUID, 4 aware datetimes (one with a +05:30 offset), 3 plain dates, URIs, undef, Vector3), map keys ASCII / non-ASCII / empty / NUL-bearing; process time zone Los Angeles / UTC / Berlin: "
              "parse(format(v)) has the same value and the same LLSD type at every node, with and without header, through the "
              "library parser and the buffered parser used inside serialization specs", covers=COVERS_BIN)
def binary_roundtrip(shape: int, k0: int, k1: int, i0: int, i1: int, s0: int, b0: int, sel: int, header: bool) -> bool:
    shape, k0, k1, sel = small(shape, 0, 3), small(k0, 0, NLEAF - 1), small(k1, 0, NLEAF - 1), small(sel, 0, 4)
    sv, bv = STRS[sel % 4], BINS[sel % 3]        # one selector drives all catalogue-valued leaves
    l0 = leaf(k0, i0, sv, bv, sel)
    l1 = leaf(k1, i1, sv + "z", bv + b"\x00", sel + 1)
    kk = ["a", "café", "", "k\x00z", "日本"][sel]          # map keys: ASCII, non-ASCII (byte length != character count), empty, NUL
    v = [l0, [l0, l1], {kk: l0, "b": [l1]}, [[l0], {kk + "k": l1}]][shape]
    _set_zone("UTC" if sel == 2 else ("Europe/Berlin" if sel == 4 else "America/Los_Angeles"))
    try:
        data = llsd.format_binary(v, with_header=header)
        if not same_llsd(llsd.parse_binary(data), v):
            return False
        if not header:
            r = se.BufferReader("<", data + b"tail")
            got = r.read(se.BinaryLLSD)
            if not same_llsd(got, v) or bytes(r.read_bytes(len(r))) != b"tail":
                return False
        return True
    finally:
        _set_zone("UTC")


def _set_zone(name):
    import os
    import time
    os.environ["TZ"] = name
    time.tzset()


shard(binary_roundtrip, "shape", range(4), ["leaf", "array", "map", "nested"], globals())

ALPHA = ["a", "\n", "\\", "'", '"', "\r", "é"]


@harness(pre=["0 <= n <= 3", "(0 <= c0) & (c0 < 7) & (0 <= c1) & (c1 < 7) & (0 <= c2) & (c2 < 7)", "0 <= where <= 2"], post="_", timeout=300,
         note="notation output never contains a raw newline: strings of <= 3 characters over {a, LF, backslash, quotes, CR, "
              "non-ASCII} as a value, as a map key's value and inside an array, and the notation parses back to the same value",
         covers=("hippolyzer.lib.base.llsd:HippoLLSDNotationFormatter.STRING", "hippolyzer.lib.base.llsd:format_notation",
                 "hippolyzer.lib.base.llsd:parse_notation"))
def notation_no_raw_newline(n: int, c0: int, c1: int, c2: int, where: int) -> bool:
    chars = [ALPHA[small(c0, 0, 6)], ALPHA[small(c1, 0, 6)], ALPHA[small(c2, 0, 6)]][:small(n, 0, 3)]
    s = "".join(chars)
    v = [s, {"key": s, "n": 1}, [1, s, [s]]][small(where, 0, 2)]
    out = llsd.format_notation(v)
    return b"\n" not in out and llsd.parse_notation(out) == v


def obligations(tier, seed):
    from vlib.main import default_obligations
    import random
    allobs = {o.name: o for o in default_obligations("harness.c12", tier)}
    names = [n for n in allobs if n.startswith("L_")]
    if tier == "thorough":
        chosen = names
    else:
        core = [f"L_{n}" for n in CORE if f"L_{n}" in allobs]
        rest = sorted(set(names) - set(core))
        chosen = core + random.Random(seed).sample(rest, 10)
    return [allobs[n] for n in chosen] + [o for n, o in allobs.items() if not n.startswith("L_")]


EVIDENCE = {
    "bounds": "dict form: per template <= 6 symbolic U32/U64/S64 values, block counts 0..2, 2 rotations of catalogue values "
              "(quick: 20 core + 10 seeded templates; thorough: all); binary: 4 tree shapes x 10 leaf kinds^2; notation: strings "
              "<= 3 chars over a 7-char alphabet",
    "outside": "XML form is exercised, not decided (C parser); zip_llsd (zlib) and dates in other process time zones are not "
               "covered; deeper trees",
    "assumptions": ["LLSD ints are S32: other integer template types pass through the dict form untouched"],
}
