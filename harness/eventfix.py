"""Shared body for the Event.notify obligations of C07 (fault isolation, at-most-once) and C19 (dispatch exactly once):
hippolyzer.lib.base.events.Event is the single dispatch point under MessageHandler for proxy addons' message subscriptions,
the session / region handlers of the proxy and of the client endpoint."""
import logging

from hippolyzer.lib.base.events import Event

logging.disable(logging.CRITICAL)

# behaviour of one subscriber
NORMAL, WANTS_UNSUB, ONE_SHOT, RAISES, PRED_FALSE, PRED_RAISES, SELF_UNSUB_TRUTHY, SELF_UNSUB, BAD_TRUTH = range(9)
NB = 9
LABELS = ["normal", "returns_true", "one_shot", "raises", "pred_false", "pred_raises", "self_unsub_then_true", "self_unsub",
          "returns_unboolable"]
STAYS = (NORMAL, RAISES, PRED_FALSE, PRED_RAISES, BAD_TRUTH)
SKIPPED = (PRED_FALSE, PRED_RAISES)


class _Unboolable:
    def __bool__(self):
        raise RuntimeError("truth value of a handler's return value is that handler's problem")


def small(x, lo, hi):
    for v in range(lo, hi + 1):
        if x == v:
            return v
    raise AssertionError("selector out of range")


def notify_matrix(b0, b1, b2, n):
    """n (1..3) subscribers with behaviours b0..b2, then an always-normal observer subscribed LAST; two notifications.
    Every subscriber registered when a notification starts and whose predicate passes is called exactly once per notification,
    in subscription order, whatever the others do (raise, unsubscribe themselves mid-notification, ask to be unsubscribed,
    are one-shot); notify() itself never raises; afterwards exactly the subscribers that neither asked to leave nor were
    one-shot remain."""
    bs = [small(b, 0, NB - 1) for b in (b0, b1, b2)][:small(n, 1, 3)]
    ev = Event("verif")
    calls = []

    def mk(i, b):
        def h(args):
            calls.append(i)
            if b == RAISES:
                raise RuntimeError("handler fault")
            if b == WANTS_UNSUB:
                return True
            if b == SELF_UNSUB_TRUTHY:
                ev.unsubscribe(h)
                return True
            if b == SELF_UNSUB:
                ev.unsubscribe(h)
                return None
            if b == BAD_TRUTH:
                return _Unboolable()
            return None
        return h

    def pred_false(args):
        return False

    def pred_raises(args):
        raise RuntimeError("predicate fault")

    for i, b in enumerate(bs):
        ev.subscribe(mk(i, b), one_shot=(b == ONE_SHOT),
                     predicate=pred_false if b == PRED_FALSE else pred_raises if b == PRED_RAISES else None)
    obs = len(bs)
    ev.subscribe(mk(obs, NORMAL))
    ev.notify("m1")                                   # must not raise
    want1 = [i for i, b in enumerate(bs) if b not in SKIPPED] + [obs]
    if calls != want1:
        return False
    remaining = [i for i, b in enumerate(bs) if b in STAYS] + [obs]
    if len(ev) != len(remaining):
        return False
    del calls[:]
    ev.notify("m2")
    want2 = [i for i in remaining if i == obs or bs[i] not in SKIPPED]
    return calls == want2 and len(ev) == len(remaining)
