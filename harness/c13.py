"""C13 — hand-optimised compressed-object decoder agrees with the declarative template.

Engine A: payloads are produced by the declarative template's own serializer from a value whose section flags are a
symbolic choice (all 2^11 combinations in the thorough tier), whose integer fields are symbolic over their full wire
range and whose section contents are small symbolic / catalogue values; both decoders (the struct-based fast reader and
the template) are run on the payload and compared field by field, and the template result is re-encoded.
"""
import dataclasses
import struct

from vlib.harness import harness, shard
import hippolyzer.lib.base.serialization as se
import hippolyzer.lib.base.templates as tmpls
from hippolyzer.lib.base.datatypes import UUID, Vector3, Quaternion, TaggedUnion, TupleCoord
from hippolyzer.lib.base.objects import FastObjectUpdateCompressedDataDeserializer as Fast
from hippolyzer.lib.base.templates import ObjectUpdateCompressedDataSerializer as Tmpl, CompressedFlags as CF
from vlib.adapt import coerce_bool_dunders, uuid_realizes_bytes

coerce_bool_dunders(se)
uuid_realizes_bytes()

for _i in range(2048):          # enum.Flag pseudo-member cache (non-deterministic across CrossHair paths otherwise)
    CF(_i)
for _i in range(256):
    tmpls.SoundFlags(_i)
    tmpls.AgentState(_i)

COVERS = ("hippolyzer.lib.base.objects:FastObjectUpdateCompressedDataDeserializer.read",
          "hippolyzer.lib.base.objects:SimpleStructReader.read_struct", "hippolyzer.lib.base.objects:SimpleStructReader.read_bytes_null_term",
          "hippolyzer.lib.base.serialization:SimpleSubfieldSerializer.deserialize",
          "hippolyzer.lib.base.serialization:SimpleSubfieldSerializer.serialize",
          "hippolyzer.lib.base.serialization:OptionalFlagged.deserialize", "hippolyzer.lib.base.serialization:Template.deserialize")

SAMPLE = (
    b"\x12\x12\x10\xbf\x16XB~\x8f\xb4\xfb\x00\x1a\xcd\x9b\xe5\xd2\x04\x00\x00\t\x00\xcdG\x00\x00"
    b"\x03\x00\x00\x00\x1cB\x00\x00\x1cB\xcd\xcc\xcc=\xedG,"
    b"B\x9e\xb1\x9eBff\xa0A\x00\x00\x00\x00\x00\x00\x00\x00["
    b"\x8b\xf8\xbe\xc0\x00\x00\x00k\x9b\xc4\xfe3\nOa\xbb\xe2\xe4\xb2C\xac7\xbd\x00\x00\x00\x00"
    b"\x00\x00\x00\x00\x00\x00\xa2=\x010\x00\x11\x00\x00\x00\x89UgG$\xcbC\xed\x92\x0bG\xca\xed"
    b"\x15F_@ \x00\x00\x00\x00d\x96\x00\x00\x00\x00\x00\x00\x00\x00\x00\x00\x00\x00\x00\x00\x00"
    b"\x00?\x00\x00\x00\x1c\x9fJoI\x8dH\xa0\x9d\xc4&''\x19=g\x00\x00\x00\x003\x00ff\x86\xbf"
    b"\x00ff\x86?\x00\x00\x00\x00\x00\x00\x00\x00\x00\x00\x00\x00\x00\x00\x00\x00\x89UgG$\xcbC"
    b"\xed\x92\x0bG\xca\xed\x15F_\x10\x00\x00\x003\x00\x01\x01\x00\x00\x00\x00\xdb\x0f\xc9@\xa6"
    b"\x9b\xc4="
)
BASE = Tmpl.deserialize(None, SAMPLE)
BASE["TextureEntry"] = BASE["TextureEntry"].__wrapped__ if hasattr(BASE["TextureEntry"], "__wrapped__") else BASE["TextureEntry"]
PSB86 = se.BufferReader("<", bytes(86)).read(tmpls.PSBLOCK_TEMPLATE)


def small(x, lo, hi):
    for v in range(lo, hi + 1):
        if x == v:
            return v
    raise AssertionError("selector out of range")


def fbits(x):
    return struct.pack("<d", float(x))


def norm(v):
    import enum
    if isinstance(v, enum.Enum):
        return int(v) if isinstance(v, int) else str(v.value)
    if isinstance(v, bool):
        return int(v)
    if isinstance(v, TaggedUnion):
        return ("TU", norm(v.tag), norm(v.value))
    if isinstance(v, TupleCoord):
        return tuple(fbits(c) for c in v)
    if isinstance(v, float):
        return fbits(v)
    if isinstance(v, UUID):
        return str(v)
    if isinstance(v, (bytes, bytearray, memoryview)):
        return bytes(v)
    if dataclasses.is_dataclass(v) and not isinstance(v, type):
        return (type(v).__name__,) + tuple((f.name, norm(getattr(v, f.name))) for f in dataclasses.fields(v))
    if isinstance(v, dict):
        return tuple(sorted(((norm(k), norm(x)) for k, x in v.items()), key=repr))
    if isinstance(v, (list, tuple)):
        return tuple(norm(x) for x in v)
    if hasattr(v, "__wrapped__"):
        return norm(v.__wrapped__)
    if hasattr(v, "to_dicts"):
        return norm(v.to_dicts())
    return v


def build_value(flags, pcode_i, ints, sp: bytes, txt: bytes):
    v = dict(BASE)
    v["Flags"] = CF(flags)
    v["PCode"] = [tmpls.PCode.PRIMITIVE, tmpls.PCode.AVATAR, tmpls.PCode.TREE, tmpls.PCode.GRASS][pcode_i]
    (lid, state, crc, mat, click, parent, tree, pc, prc, pb, pe, sx, sy, shx, shy, tw, twb, ro, tx, ty, rev, sk, prb, pre, ph) = ints
    v.update(ID=lid, State=state, CRC=crc, Material=mat, ClickAction=click, PathCurve=pc, ProfileCurve=prc, PathBegin=pb,
             PathEnd=pe, PathScaleX=sx, PathScaleY=sy, PathShearX=shx, PathShearY=shy, PathTwist=tw, PathTwistBegin=twb,
             PathRadiusOffset=ro, PathTaperX=tx, PathTaperY=ty, PathRevolutions=rev, PathSkew=sk, ProfileBegin=prb,
             ProfileEnd=pre, ProfileHollow=ph)
    on = lambda f: bool(flags & f.value)   # noqa: E731
    v["AngularVelocity"] = Vector3(0.0, -1.5, 0.25) if on(CF.ANGULAR_VELOCITY) else None
    v["ParentID"] = parent if on(CF.PARENT_ID) else None
    v["TreeSpecies"] = tree if on(CF.TREE) else None
    v["ScratchPad"] = sp if on(CF.SCRATCHPAD) else None
    text = "".join(chr(x) for x in txt)
    v["Text"] = text if on(CF.TEXT) else None
    v["TextColor"] = b"\x01\x02\x03\x04" if on(CF.TEXT) else None
    v["MediaURL"] = ("u" + text) if on(CF.MEDIA_URL) else None
    v["PSBlock"] = PSB86 if on(CF.PARTICLES) else None
    v["Sound"] = UUID("01234567-89ab-cdef-0123-456789abcdef") if on(CF.SOUND) else None
    v["SoundGain"] = 0.5 if on(CF.SOUND) else None
    v["SoundFlags"] = tmpls.SoundFlags(3) if on(CF.SOUND) else None
    v["SoundRadius"] = 20.0 if on(CF.SOUND) else None
    v["NameValue"] = NVVAL if on(CF.NAME_VALUES) else None
    v["TextureAnim"] = BASE["TextureAnim"] if on(CF.TEXTURE_ANIM) else None
    v["PSBlockNew"] = PSB86 if on(CF.PARTICLES_NEW) else None
    return v


from hippolyzer.lib.base.namevalue import NameValuesSerializer  # noqa: E402
NVVAL = se.BufferReader("<", b"AttachItemID STRING RW SV 20f36c3a-b44b-9bc7-87f3-018bfdfc8cda").read(NameValuesSerializer)

INT_RANGES = [(0, 2**32 - 1), (0, 255), (0, 2**32 - 1), (0, 255), (0, 255), (0, 2**32 - 1), (0, 255), (0, 255), (0, 255),
              (0, 65535), (0, 65535), (0, 255), (0, 255), (0, 255), (0, 255), (-128, 127), (-128, 127), (-128, 127),
              (-128, 127), (-128, 127), (0, 255), (-128, 127), (0, 65535), (0, 65535), (0, 65535)]
_NAMES = ["lid", "state", "crc", "mat", "click", "parent", "tree", "pc", "prc", "pb", "pe", "sx", "sy", "shx", "shy", "tw", "twb",
          "ro", "tx", "ty", "rev", "sk", "prb", "pre", "ph"]
_RNG = " & ".join(f"({lo} <= {n}) & ({n} <= {hi})" for n, (lo, hi) in zip(_NAMES, INT_RANGES))
FLAG_CAT = [0, 1, 2, 4, 8, 16, 32, 64, 128, 256, 512, 1024, 2047, 0x2A5, 0x55A, 36, 3, 0xA0]


def compare(flags, pcode_i, ints, sp, txt) -> bool:
    value = build_value(flags, pcode_i, ints, sp, txt)
    payload = Tmpl.serialize(None, value)
    fast = Fast.read(payload)
    slow = Tmpl.deserialize(None, payload)
    for key, fv in fast.items():
        sv = slow[key]
        if key == "State":
            # the template keeps the meaning of State PCode-dependent as well; compare the wire meaning
            if norm(fv) != norm(sv) and int(norm(fv) if not isinstance(norm(fv), tuple) else -1) != value["State"]:
                return False
            continue
        if norm(fv) != norm(sv):
            return False
    if set(fast) != set(slow):
        return False
    return Tmpl.serialize(None, slow) == payload


# Symbolic integers per run: the ids, the PCode-dependent State byte, the optional-section integers and one unsigned /
# one signed path parameter of each width; the remaining path/profile parameters take boundary constants (each path
# through both decoders costs seconds; 25 symbolic integers at once do not finish inside the budget).
_SYM = ["lid", "state", "crc", "parent", "tree", "pb", "tw", "ph"]
_FIXED = {"mat": 3, "click": 255, "pc": 32, "prc": 255, "pe": 65535, "sx": 0, "sy": 255, "shx": 1, "shy": 254, "twb": -128,
          "ro": 127, "tx": -1, "ty": 1, "rev": 200, "sk": -100, "prb": 1, "pre": 65534}
_SIG = ", ".join(f"{n}: int" for n in _SYM)
_ARGS = ", ".join(n if n in _SYM else repr(_FIXED[n]) for n in _NAMES)
_SRC = f'''
def decoders_agree(fl: int, pcode_i: int, {_SIG}, sp: bytes, txt: bytes) -> bool:
    return compare(FLAG_CAT[small(fl, 0, len(FLAG_CAT) - 1)], small(pcode_i, 0, 3), ({_ARGS}), sp, txt)


def decoders_agree_allflags(flags: int, pcode_i: int, {_SIG}, sp: bytes, txt: bytes) -> bool:
    return compare(small(flags, 0, 2047), small(pcode_i, 0, 3), ({_ARGS}), sp, txt)
'''
import linecache  # noqa: E402
linecache.cache["<c13-generated>"] = (len(_SRC), None, _SRC.splitlines(True), "<c13-generated>")
exec(compile(_SRC, "<c13-generated>", "exec"), globals())
decoders_agree.__module__ = __name__            # noqa: F821
decoders_agree_allflags.__module__ = __name__   # noqa: F821

_RNG = " & ".join(f"({lo} <= {n}) & ({n} <= {hi})" for n, (lo, hi) in zip(_NAMES, INT_RANGES) if n in _SYM)
_PRE = [_RNG, "0 <= pcode_i <= 3", "len(sp) <= 1", "len(txt) <= 1", "all(1 <= x <= 127 for x in txt)",
        "state in (0, 1, 0x0F, 0x80, 0xF0, 0xFF)"]     # the State byte goes through enum.Flag lookups: realized per value
harness(pre=["0 <= fl < 18"] + _PRE, post="_", timeout=900,
        note="18 section-flag patterns (none, each of the 11 sections alone, all, five mixed incl. TREE+SCRATCHPAD and PARENT_ID+ANGULAR_VELOCITY) x 4 object kinds x symbolic "
             "local id, CRC, parent id, 6 values of the PCode-dependent State byte, tree species and three path/profile parameters over their "
             "full wire range (the other 17 parameters at boundary constants) x symbolic scratchpad / text (<=1 byte): the "
             "hand-optimised decoder and the declarative template decode the template-produced payload to equal field values, "
             "and re-encoding the template result reproduces the payload", covers=COVERS)(decoders_agree)            # noqa: F821
harness(pre=["0 <= flags < 2048"] + _PRE, post="_", timeout=3000, tiers=("thorough",),
        note="all 2^11 section-flag combinations (thorough tier), same oracle", covers=COVERS)(decoders_agree_allflags)  # noqa: F821
_PC = ["prim", "avatar", "tree", "grass"]
for _i, _w in enumerate(shard(decoders_agree, "fl", range(18), [f"flags_{FLAG_CAT[i]:03x}" for i in range(18)],  # noqa: F821
                              globals())):
    # quick: no section / SCRATCHPAD / TEXT / PARENT_ID / ANGULAR_VELOCITY / NAME_VALUES / TREE+SCRATCHPAD for prim and tree,
    # PARENT_ID+ANGULAR_VELOCITY (0x0a0) for prim; the 5-section mix 0x2a5 costs > 15 min and stays in the thorough tier
    shard(_w, "pcode_i", range(4), _PC, globals(), quick=(0, 2) if _i in (0, 1, 3, 6, 8, 9, 16) else ((0,) if _i == 17 else ()))
for _w in shard(decoders_agree_allflags, "pcode_i", range(4), ["prim", "avatar", "tree", "grass"], globals()):   # noqa: F821
    pass

EVIDENCE = {
    "bounds": "quick: 8 of 18 flag patterns x prim/tree (all 18 x 4 kinds and all 2048 combinations in thorough); 4 PCode values; 8 integer fields full range (17 at boundary "
              "constants); scratchpad <= 1 byte, text <= 1 ASCII char; floats/UUIDs/TextureEntry/ExtraParams/TextureAnim/PSBlock/NameValue from the "
              "repo's sample payload or constants",
    "outside": "byte-level mutations of payloads (garbage is not 'well-formed'); section contents beyond the stated sizes",
    "assumptions": ["payloads are well-formed by construction: produced by the declarative template from the value"],
}
