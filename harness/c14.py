"""C14 — the tracked world stays self-consistent under any object update / kill history.

Engine A.  All histories of <= 3 (quick) / 4 (thorough) events over a small universe (3 full IDs, local IDs 1..3,
parents 0..3, one or two regions) are driven through the real session message handler into the real
ProxyWorldObjectManager / ProxyObjectManager / RegionObjectsState; every event parameter is a solver-chosen
integer.  After EVERY event the real indices are compared with an independent reference model of the scene graph
(a dict full-id -> (region, local, parent)); histories in which the simulator would hand one local ID to two live
objects or create a parent cycle are outside the property and skipped by the model.
"""
import asyncio

from vlib.harness import harness, shard
from harness import proxyfix as px
from harness.proxyfix import small
from hippolyzer.lib.base.datatypes import UUID, Vector3
from hippolyzer.lib.base.message.message import Message, Block
from hippolyzer.lib.base.message.udpdeserializer import UDPMessageDeserializer
from hippolyzer.lib.base.message.udpserializer import UDPMessageSerializer
from hippolyzer.lib.base.templates import PCode
from hippolyzer.lib.client.object_manager import ObjectUpdateType
from hippolyzer.lib.proxy.circuit import ProxiedCircuit
import hippolyzer.lib.base.templates as tmpls

_C = "hippolyzer.lib.client.object_manager:"
COVERS = (_C + "ClientWorldObjectManager._handle_object_update", _C + "ClientWorldObjectManager._handle_terse_object_update",
          _C + "ClientWorldObjectManager._handle_object_update_compressed",
          _C + "ClientWorldObjectManager._handle_object_update_cached",
          _C + "ClientWorldObjectManager._handle_object_properties_generic", _C + "ClientWorldObjectManager._handle_kill_object",
          _C + "ClientWorldObjectManager._update_existing_object", _C + "ClientWorldObjectManager._track_new_object",
          _C + "ClientWorldObjectManager._kill_object_by_local_id", _C + "ClientWorldObjectManager.untrack_region_objects",
          _C + "RegionObjectsState.track_object", _C + "RegionObjectsState.untrack_object",
          _C + "RegionObjectsState._parent_object", _C + "RegionObjectsState._unparent_object",
          _C + "RegionObjectsState.handle_object_reparented", _C + "RegionObjectsState.collect_orphans",
          _C + "RegionObjectsState.register_future", _C + "RegionObjectsState.resolve_futures",
          _C + "RegionObjectsState.cancel_futures", _C + "ClientObjectManager.clear",
          "hippolyzer.lib.base.objects:normalize_object_update", "hippolyzer.lib.base.objects:normalize_terse_object_update",
          "hippolyzer.lib.base.objects:normalize_object_update_compressed", "hippolyzer.lib.base.objects:Object.update_properties")

FULL = [UUID("aaaaaaaa-0000-0000-0000-000000000001"), UUID("bbbbbbbb-0000-0000-0000-000000000002"),
        UUID("cccccccc-0000-0000-0000-000000000003")]
SIM_B = ("127.0.0.1", 5)
REGION_B = px.SESSION.register_region(circuit_addr=SIM_B, seed_url="https://test.localhost:4/bar", handle=456)
REGIONS = [px.REGION, REGION_B]
SER, DESER = UDPMessageSerializer(), UDPMessageDeserializer()

# event kinds
UPDATE, COMPRESSED, KILL, TERSE, PROPS, CACHED, REQUEST, TEARDOWN = range(8)
KIND_NAMES = ["update", "compressed", "kill", "terse", "props", "cached", "request", "teardown"]

_MSG_CACHE = {}


def _untraced(fn):
    import sys
    if "crosshair.tracers" in sys.modules:
        from crosshair.tracers import NoTracing, is_tracing
        if is_tracing():
            with NoTracing():
                return fn()
    return fn()


def _build_update(fi, local, parent, ri):
    handle = REGIONS[ri].handle
    msg = Message(
        "ObjectUpdate",
        Block("RegionData", RegionHandle=handle, TimeDilation=123),
        Block("ObjectData", ID=local, FullID=FULL[fi], PCode=PCode.PRIMITIVE, Scale=Vector3(0.5, 0.5, 0.5),
              UpdateFlags=268568894, PathCurve=16, ParentID=parent, ProfileCurve=1, PathScaleX=100, PathScaleY=100,
              NameValue=None, CRC=22,
              TextureEntry=b'\x89UgG$\xcbC\xed\x92\x0bG\xca\xed\x15F_\x00\x00\x00\x00\x00\x00\x00\x00\x80?\x00\x00'
                           b'\x00\x80?\x00\x00\x00\x00\x00\x00\x00\x00\x00\x00\x00\x00\x00\x00\x00\x00\x00\x00\x00'
                           b'\x00\x00\x00\x00\x00\x00\x00\x00\x00\x00\x00\x00\x00',
              TextColor=b'\x00\x00\x00\x00', ExtraParams=b'\x00', fill_missing=True))
    msg["ObjectData"][0].serialize_var("ObjectData", (60, {
        'Position': (1.0, 2.0, 3.0), 'Velocity': (0.0, 0.0, 0.0), 'Acceleration': (0.0, 0.0, 0.0),
        'Rotation': (0.0, 0.0, 0.0, 1.0), 'AngularVelocity': (0.0, 0.0, 0.0)}))
    return DESER.deserialize(SER.serialize(msg))


def _build_compressed(fi, local, parent, ri):
    handle = REGIONS[ri].handle
    flags = tmpls.CompressedFlags.PARENT_ID if parent else tmpls.CompressedFlags(0)
    data = {
        "FullID": FULL[fi], "ID": local, "PCode": PCode.PRIMITIVE, "State": 0, "CRC": 22, "Material": tmpls.MCode.WOOD,
        "ClickAction": 0, "Scale": Vector3(0.5, 0.5, 0.5), "Position": Vector3(1.0, 2.0, 3.0),
        "Rotation": (0.0, 0.0, 0.0, 1.0), "Flags": flags, "OwnerID": UUID.ZERO,
    }
    blk = Block("ObjectData", UpdateFlags=268568894, Data=b"")
    template = tmpls.ObjectUpdateCompressedDataSerializer.TEMPLATE
    # start from what the serializer itself decodes out of a minimal payload, then override identity fields
    base = _compressed_base()
    base.update(data)
    base["ParentID"] = parent if parent else None
    blk["Data"] = tmpls.ObjectUpdateCompressedDataSerializer.serialize(blk, base)
    msg = Message("ObjectUpdateCompressed", Block("RegionData", RegionHandle=handle, TimeDilation=123), blk)
    return DESER.deserialize(SER.serialize(msg))


_CB = []


def _compressed_base():
    if not _CB:
        ser = tmpls.ObjectUpdateCompressedDataSerializer
        blk = Block("ObjectData")
        val = ser.deserialize(blk, bytes(112), pod=False)
        if hasattr(val, "__wrapped__"):
            val = val.__wrapped__
        _CB.append(dict(val))
    return dict(_CB[0])


def _build_kill(local):
    return Message("KillObject", Block("ObjectData", ID=local))


def _build_terse(local, ri, x):
    blk = Block("ObjectData", Data=b"", TextureEntry=b"")
    msg = Message("ImprovedTerseObjectUpdate", Block("RegionData", RegionHandle=REGIONS[ri].handle, TimeDilation=65345), blk)
    blk.serialize_var("Data", {
        "ID": local, "State": 0, "FootCollisionPlane": None, "Position": Vector3(float(x), 2.0, 3.0),
        "Velocity": Vector3(0.0, 0.0, 0.0), "Acceleration": Vector3(0.0, 0.0, 0.0),
        "Rotation": (0.0, 0.0, 0.0, 1.0), "AngularVelocity": Vector3(0.0, 0.0, 0.0)})
    return msg


def _build_props(fi):
    msg = Message("ObjectProperties", Block("ObjectData", ObjectID=FULL[fi], Name="thing", Description="desc",
                                             TextureID=b"", fill_missing=True))
    return DESER.deserialize(SER.serialize(msg))


def _build_cached(local, ri, crc):
    return Message("ObjectUpdateCached", Block("RegionData", TimeDilation=102, RegionHandle=REGIONS[ri].handle),
                   Block("ObjectData", ID=local, CRC=crc, UpdateFlags=4321))


def message_for(key):
    """messages are concrete catalogue content (C01/C09/C13 own the codecs): built once outside the tracer"""
    def build():
        if key not in _MSG_CACHE:
            kind = key[0]
            if kind == UPDATE:
                _MSG_CACHE[key] = _build_update(*key[1:])
            elif kind == COMPRESSED:
                _MSG_CACHE[key] = _build_compressed(*key[1:])
            elif kind == PROPS:
                _MSG_CACHE[key] = _build_props(*key[1:])
        return _MSG_CACHE[key]
    return _untraced(build)


HANDLER_ERRORS = []


def _record_handler_errors(message_handler):
    """the event layer logs and swallows exceptions raised by subscribers; wrap the subscription records (not the code) so
    that 'no handler raises' is observable: the wrapper records and re-raises"""
    for event in message_handler.handlers.values():
        for i, sub in enumerate(list(event.subscribers)):
            h = sub[0]
            if getattr(h, "_verif_recorder", False) or asyncio.iscoroutinefunction(h):
                continue

            def make(h):
                def recorder(*a, **kw):
                    try:
                        return h(*a, **kw)
                    except Exception as e:  # noqa
                        HANDLER_ERRORS.append(f"{getattr(h, '__qualname__', h)}: {e!r}")
                        raise
                recorder._verif_recorder = True
                return recorder
            event.subscribers[i] = (make(h),) + tuple(sub[1:])


_record_handler_errors(px.SESSION.message_handler)
for _r in REGIONS:
    _record_handler_errors(_r.message_handler)


def deliver(msg, ri):
    msg.sender = REGIONS[ri].circuit_addr
    px.SESSION.message_handler.handle(msg)
    REGIONS[ri].message_handler.handle(msg)


def pump():
    px._LOOP.run_until_complete(asyncio.sleep(0))


def fresh():
    del HANDLER_ERRORS[:]
    rec = px.Recorder()
    px.PROTO.transport = rec
    px.SM.message_logger = None
    px.REGION.circuit = ProxiedCircuit(px.CLIENT, px.SIM, rec, logging_hook=None)
    REGION_B.circuit = ProxiedCircuit(px.CLIENT, SIM_B, rec, logging_hook=None)
    for r in REGIONS:
        r.circuit.serializer = px.SnapSerializer()
    for r in REGIONS:
        r.objects.clear()
    px.SESSION.objects.clear()
    for r in REGIONS:
        px.SESSION.objects.track_region_objects(r.handle)
    pump()


# ------------------------------------------------------------------------------------------------ reference model
class Model:
    def __init__(self):
        self.objs = {}          # fi -> [ri, local, parent]
        self.futs = []          # [future, ri, local, kind, must_be_done]

    def at(self, ri, local):
        for fi, (r, l, p) in self.objs.items():
            if r == ri and l == local:
                return fi
        return None

    def update_allowed(self, fi, local, parent, ri):
        other = self.at(ri, local)
        if other is not None and other != fi:
            return False                 # the simulator never gives one local ID to two live objects
        if parent == local:
            return False
        # parent chain of the updated object must not come back to it
        nxt = dict(self.objs)
        nxt[fi] = [ri, local, parent]
        seen, cur = {local}, parent
        while cur:
            if cur in seen:
                return False
            seen.add(cur)
            f = next((k for k, (r, l, p) in nxt.items() if r == ri and l == cur), None)
            if f is None:
                break
            cur = nxt[f][2]
        # a local-id change of a live object must not leave children pointing at the old id in a cycle-free but
        # ambiguous way: allowed by the property, handled by the model as a plain re-key
        return True

    def update(self, fi, local, parent, ri):
        old = self.objs.get(fi)
        if old is not None and (old[0] != ri or old[1] != local):
            self.must_finish(old[0], old[1], None)          # left its region / changed local id: requests cancelled
        self.objs[fi] = [ri, local, parent]
        self.must_finish(ri, local, ObjectUpdateType.UPDATE)

    def kill(self, ri, local):
        fi = self.at(ri, local)
        if fi is not None:
            del self.objs[fi]
        self.must_finish(ri, local, None)
        for cfi, (r, l, p) in list(self.objs.items()):
            if cfi in self.objs and r == ri and p == local:
                self.kill(ri, l)

    def teardown(self, ri):
        for fi, (r, l, p) in list(self.objs.items()):
            if r == ri:
                del self.objs[fi]
        for f in self.futs:
            if f[1] == ri:
                f[4] = True

    def must_finish(self, ri, local, kind):
        for f in self.futs:
            if f[1] == ri and f[2] == local and (kind is None or f[3] == kind):
                f[4] = True


def consistent(m: Model) -> bool:
    world = px.SESSION.objects
    real = {o.FullID: o for o in world.all_objects}
    if set(real) != {FULL[fi] for fi in m.objs}:
        return False
    if len(world) != len(m.objs):
        return False
    for ri, region in enumerate(REGIONS):
        state = region.objects.state
        want_locals = {l: FULL[fi] for fi, (r, l, p) in m.objs.items() if r == ri}
        got_locals = {l: o.FullID for l, o in state.localid_lookup.items()}
        if want_locals != got_locals or len(region.objects) != len(want_locals):
            return False
        if {o.FullID for o in region.objects.all_objects} != set(want_locals.values()):
            return False
        for local in (1, 2, 3):
            o = region.objects.lookup_localid(local)
            if (o is None) != (local not in want_locals):
                return False
        # orphanage: exactly the tracked objects whose parent is not tracked, once each, under that parent's id
        want_orphans = {}
        for fi, (r, l, p) in m.objs.items():
            if r == ri and p and p not in want_locals:
                want_orphans.setdefault(p, []).append(l)
        got_orphans = {k: sorted(v) for k, v in state._orphans.items() if v}
        if got_orphans != {k: sorted(v) for k, v in want_orphans.items()}:
            return False
        if any(not v for v in state._orphans.values()):
            return False
    for fi, (ri, local, parent) in m.objs.items():
        o = real[FULL[fi]]
        region = REGIONS[ri]
        if o.LocalID != local or (o.ParentID or 0) != parent or o.RegionHandle != region.handle:
            return False
        if region.objects.lookup_fullid(FULL[fi]) is not o or region.objects.lookup_localid(local) is not o:
            return False
        if REGIONS[1 - ri].objects.lookup_fullid(FULL[fi]) is not None:
            return False
        kids = sorted(l for f2, (r, l, p) in m.objs.items() if r == ri and p == local)
        if sorted(o.ChildIDs) != kids or [c.LocalID for c in o.Children] != list(o.ChildIDs):
            return False
        pfi = m.at(ri, parent) if parent else None
        if pfi is None:
            if o.Parent is not None:
                return False
        else:
            if o.Parent is None or o.Parent.FullID != FULL[pfi]:
                return False
    for fut, ri, local, kind, must in m.futs:
        if must and not fut.done():
            return False
    return not HANDLER_ERRORS


# ------------------------------------------------------------------------------------------------ events
class U:
    """universe of a run"""
    def __init__(self, nf, nl, nr, compressed):
        self.nf, self.nl, self.nr, self.compressed = nf, nl, nr, compressed


def decode(u: U, ev, first):
    """concretize one event's parameters (solver-chosen); None = not an event of this universe (path ends at once).
    The first event is taken up to renaming of full IDs / local IDs (full ID A, local ID 1, parent 0 or 2)."""
    kind, a, b, c, d = ev
    kind = small(kind, 0, 7)
    if kind == COMPRESSED and not u.compressed:
        return None
    ri = small(d, 0, u.nr - 1)
    if kind in (UPDATE, COMPRESSED):
        fi, local, parent = small(a, 0, u.nf - 1), small(b, 1, u.nl), small(c, 0, u.nl)
        if parent == local or (first and (fi != 0 or local != 1 or parent > 2)):
            return None
        return kind, fi, local, parent, ri
    if kind == PROPS:
        fi = small(a, 0, u.nf - 1)
        if b != 1 or c != 0 or d != 0 or (first and fi != 0):
            return None
        return kind, fi, 0, 0, 0
    if kind == TEARDOWN:
        if a != 0 or b != 1 or c != 0:
            return None
        return kind, 0, 0, 0, ri
    if a != 0:
        return None
    local = small(b, 1, u.nl)
    if first and local != 1:
        return None
    if kind in (KILL, TERSE):
        if c != 0:
            return None
        return kind, 0, local, 0, ri
    if c > 1:
        return None
    return kind, 0, local, small(c, 0, 1), ri          # CACHED: crc matches or not; REQUEST: which kind of request


def apply_event(m: Model, ev) -> bool:
    """returns False when the event is outside the property's precondition (history skipped)"""
    kind, fi, local, x, ri = ev
    if kind in (UPDATE, COMPRESSED):
        if not m.update_allowed(fi, local, x, ri):
            return False
        deliver(message_for((kind, fi, local, x, ri)), ri)
        m.update(fi, local, x, ri)
    elif kind == KILL:
        deliver(_build_kill(local), ri)
        m.kill(ri, local)
    elif kind == TERSE:
        deliver(_build_terse(local, ri, 1), ri)
    elif kind == PROPS:
        deliver(message_for((PROPS, fi)), 0)
        if fi in m.objs:
            m.must_finish(m.objs[fi][0], m.objs[fi][1], ObjectUpdateType.PROPERTIES)
    elif kind == CACHED:
        deliver(_build_cached(local, ri, 22 if x == 0 else 99), ri)
    elif kind == REQUEST:
        if x == 0:
            futs = REGIONS[ri].objects.request_objects(local)
            m.futs.append([futs[0], ri, local, ObjectUpdateType.UPDATE, False])
        else:
            futs = REGIONS[ri].objects.request_object_properties(local)
            m.futs.append([futs[0], ri, local, ObjectUpdateType.PROPERTIES, False])
    else:
        REGIONS[ri].objects.clear()
        px.SESSION.objects.track_region_objects(REGIONS[ri].handle)
        m.teardown(ri)
    pump()
    return True


def pre(n, u: U):
    out = []
    for i in range(n):
        out.append(f"0 <= k{i} <= 7")
        out.append(f"(0 <= a{i}) & (a{i} < {u.nf}) & (1 <= b{i}) & (b{i} <= {u.nl}) & (0 <= c{i}) & (c{i} <= {u.nl}) & "
                   f"(0 <= d{i}) & (d{i} < {u.nr})")
    return out


def run(u: U, events) -> bool:
    evs = []
    for i, ev in enumerate(events):
        e = decode(u, ev, i == 0)
        if e is None:
            return True
        evs.append(e)
    # every parameter is concrete from here on (the solver chose them above): the real handlers run outside the tracer
    return _untraced(lambda: run_concrete(evs))


def run_concrete(evs) -> bool:
    fresh()
    m = Model()
    for e in evs:
        if not apply_event(m, e):
            return True
        if not consistent(m):
            return False
    return True


NOTE = ("ALL histories of %d events (kinds: full update, %skill, terse update, properties reply, cached update with matching / "
        "non-matching CRC, object / properties request, region teardown+re-track) over %d full IDs x local IDs 1..%d x parents "
        "0..%d x %d region(s), every parameter solver-chosen (first event up to renaming of IDs), through the real message "
        "handlers; after EVERY event both indices, per-object parent / children links (both directions), the orphanage and "
        "the pending requests agree with an independent scene-graph model; no handler raises. Histories that reuse a live "
        "local ID for another object or form a parent cycle are outside the property and skipped")


def note(n, u):
    return NOTE % (n, "compressed update, " if u.compressed else "", u.nf, u.nl, u.nl, u.nr)


U3 = U(3, 3, 1, False)
U2R = U(3, 3, 2, True)
U4 = U(2, 2, 1, False)
U3R = U(2, 2, 2, True)


@harness(pre=pre(2, U2R), post="_", timeout=900, covers=COVERS, note=note(2, U2R))
def histories2_two_regions(k0: int, a0: int, b0: int, c0: int, d0: int, k1: int, a1: int, b1: int, c1: int, d1: int) -> bool:
    return run(U2R, [(k0, a0, b0, c0, d0), (k1, a1, b1, c1, d1)])


@harness(pre=pre(3, U3), post="_", timeout=900, covers=COVERS, note=note(3, U3))
def histories3(k0: int, a0: int, b0: int, c0: int, d0: int, k1: int, a1: int, b1: int, c1: int, d1: int,
               k2: int, a2: int, b2: int, c2: int, d2: int) -> bool:
    return run(U3, [(k0, a0, b0, c0, d0), (k1, a1, b1, c1, d1), (k2, a2, b2, c2, d2)])


@harness(pre=pre(4, U4), post="_", timeout=3000, tiers=("thorough",), covers=COVERS, note=note(4, U4))
def histories4(k0: int, a0: int, b0: int, c0: int, d0: int, k1: int, a1: int, b1: int, c1: int, d1: int,
               k2: int, a2: int, b2: int, c2: int, d2: int, k3: int, a3: int, b3: int, c3: int, d3: int) -> bool:
    return run(U4, [(k0, a0, b0, c0, d0), (k1, a1, b1, c1, d1), (k2, a2, b2, c2, d2), (k3, a3, b3, c3, d3)])


@harness(pre=pre(3, U3R), post="_", timeout=3000, tiers=("thorough",), covers=COVERS, note=note(3, U3R))
def histories3_two_regions(k0: int, a0: int, b0: int, c0: int, d0: int, k1: int, a1: int, b1: int, c1: int, d1: int,
                           k2: int, a2: int, b2: int, c2: int, d2: int) -> bool:
    return run(U3R, [(k0, a0, b0, c0, d0), (k1, a1, b1, c1, d1), (k2, a2, b2, c2, d2)])


for _base in (histories2_two_regions, histories3, histories4, histories3_two_regions):
    for _sh in shard(_base, "k0", range(8), KIND_NAMES, globals()):
        shard(_sh, "k1", range(8), KIND_NAMES, globals())
        del globals()[_sh.__name__]
del _base, _sh

EVIDENCE = {
    "bounds": "histories of 3 events in one region and 2 events across two regions (quick); 4 / 3 events (thorough); 3 full "
              "IDs, local IDs 1..3, parents 0..3; prims only",
    "outside": "avatars (exempt from cascading kills by design) and attachments; viewer-object-cache hits; longer histories; "
               "updates addressed to a region that was torn down and not re-tracked; message content beyond identity fields "
               "is a concrete catalogue; the event loop is pumped between events (two datagrams handled inside one loop "
               "iteration are not modelled)",
    "assumptions": ["messages are built once outside the tracer from concrete catalogue content"],
}
