"""C15 — intercepted HTTP flows are handed back exactly once, state intact.

Engine A: the fault schedule is symbolic — event type, capability kind of the URL, the point at which an internal
handler raises, and the addon's behaviour (ignore / take / take + resume later / inject a response / rewrite the URL)
— through the real MITMProxyEventManager.pump_proxy_event, HippoHTTPFlow and CapData (de)hydration.
"""
import mitmproxy.http
from mitmproxy.http import HTTPFlow
from mitmproxy.test import tutils

from vlib.harness import harness, shard
from harness import proxyfix as px
from harness import httpfix as hx
from harness.proxyfix import small
from hippolyzer.lib.proxy.caps import CapType
from hippolyzer.lib.proxy.http_flow import HippoHTTPFlow

_P = "hippolyzer.lib.proxy."
COVERS = (_P + "http_event_manager:MITMProxyEventManager.pump_proxy_event", _P + "http_event_manager:MITMProxyEventManager._handle_request",
          _P + "http_event_manager:MITMProxyEventManager._handle_response", _P + "http_flow:HippoHTTPFlow.take",
          _P + "http_flow:HippoHTTPFlow.resume", _P + "http_flow:HippoHTTPFlow.get_state", _P + "http_flow:HippoHTTPFlow.from_state",
          _P + "caps:CapData.serialize", _P + "caps:CapData.deserialize", _P + "addons:AddonManager.handle_http_request",
          _P + "addons:AddonManager.handle_http_response")

KINDS = ["none", "Seed", "EventQueueGet", "GetTextureProxyWrapper", "ProxyOnly", "Temporary", "Normal"]
FAULTS = ["none", "resolve_cap", "asset_repo", "addon_hook", "session_handler", "region_handler", "logger", "bad_body"]
ADDON = ["ignore", "take", "take_resume_later", "inject_response", "rewrite_url"]
NK, NF, NA = len(KINDS), len(FAULTS), len(ADDON)


class Boom(Exception):
    pass


class FlowAddon:
    def __init__(self, mode, fault):
        self.mode, self.fault = mode, fault
        self.taken = None

    def _do(self, flow):
        if self.fault == 3:
            raise Boom("addon hook")
        if self.mode in (1, 2):
            self.taken = flow.take()
        elif self.mode == 3:
            flow.response = mitmproxy.http.Response.make(200, b"injected by addon", {"Content-Type": "text/plain"})
        elif self.mode == 4:
            flow.request.url = "https://rewritten.example/new/path?q=1"

    def handle_http_request(self, session_manager, flow):
        self._do(flow)

    def handle_http_response(self, session_manager, flow):
        self._do(flow)


def setup_caps(region):
    region.eq_manager.clear()          # shared region object: no cached poll response from an earlier path
    region.caps.clear()
    region.caps["Seed"] = (CapType.NORMAL, "https://test.localhost:4/foo")
    region.register_cap("EventQueueGet", "https://sim.example/eq")
    region.register_cap("GetTexture", "https://assets.example/tex")
    wrapper = region.register_wrapper_cap("GetTexture")
    proxy = region.register_proxy_cap("MyProxyCap")
    region.register_cap("UploaderThing", "https://sim.example/upload/1", CapType.TEMPORARY)
    region.register_cap("FetchInventory2", "https://sim.example/cap/fetch")
    return wrapper, proxy


def url_for(kind, wrapper, proxy):
    return ["https://unknown.example/x", "https://test.localhost:4/foo", "https://sim.example/eq", wrapper + "/?texture_id=1",
            proxy + "/x", "https://sim.example/upload/1", "https://sim.example/cap/fetch/sub"][kind]


def run(is_response, kind, fault, mode):
    addon = FlowAddon(mode, fault)
    f = px.reset([addon])
    ctx, mgr = hx.fresh_http()
    region = px.REGION
    wrapper, proxy = setup_caps(region)
    url = url_for(kind, wrapper, proxy)
    from urllib.parse import urlsplit
    parts = urlsplit(url)
    body = hx.xml({"ack": 1, "done": False}) if kind == 2 else (hx.xml(["FetchInventory2"]) if kind == 1 else b"payload")
    if fault == 7:
        body = b"<llsd><not-closed"
    resp_body = None
    if is_response:
        resp_body = hx.xml({"id": 2, "events": []}) if kind == 2 else (hx.xml({"FetchInventory2": "https://sim.example/cap/f2"})
                                                                        if kind == 1 else b"ok")
        if fault == 7:
            resp_body = b"<llsd><not-closed"
    flow = hx.make_flow(url_host=parts.hostname, port=parts.port, scheme=parts.scheme,
                        path=parts.path + ("?" + parts.query if parts.query else ""), content=body, resp_content=resp_body)
    if is_response:
        # the response leg arrives with the cap data resolved during the request leg
        cd = px.SM.resolve_cap(url) if kind != 5 else None
        h = HippoHTTPFlow(flow)
        if cd:
            h.cap_data = cd
        if kind == 1:
            flow.metadata["needed_proxy_caps"] = []
        state = h.get_state()
    else:
        state = flow.get_state()
    # fault injection points (wrapped callables raise when selected)
    saved = (px.SM.resolve_cap, px.SM.asset_repo.try_serve_asset, px.SM.message_logger)
    if fault == 1:
        def boom(*a, **k):
            raise Boom("resolve_cap")
        px.SM.resolve_cap = boom
    if fault == 2:
        def boom2(*a, **k):
            raise Boom("asset repo")
        px.SM.asset_repo.try_serve_asset = boom2
    if fault == 4:
        def sub(fl):
            raise Boom("session handler")
        px.SESSION.http_message_handler.handlers.clear()
        px.SESSION.http_message_handler.subscribe("*", sub)
    if fault == 5:
        def sub2(fl):
            raise Boom("region handler")
        region.http_message_handler.handlers.clear()
        region.http_message_handler.subscribe("*", sub2)
    if fault == 6:
        class BadLog:
            def log_http_response(self, flow):
                raise Boom("logger")
        px.SM.message_logger = BadLog()
    try:
        ctx.from_proxy_queue.put(("response" if is_response else "request", state))
        coro = mgr.pump_proxy_event()
        try:
            coro.send(None)
        except StopIteration:
            pass
        except Exception:
            pass                      # MITMProxyEventManager.run() logs and carries on; hand-back must already have happened
        finally:
            coro.close()
    finally:
        if fault == 1:
            del px.SM.resolve_cap
        if fault == 2:
            del px.SM.asset_repo.try_serve_asset
        px.SM.message_logger = saved[2]
        px.SESSION.http_message_handler.handlers.clear()
        region.http_message_handler.handlers.clear()
    back = hx.drain(ctx.to_proxy_queue)
    took = addon.taken is not None
    if took:
        if back:
            return False              # an owned flow is not handed back behind the owner's back
        if mode == 2:
            addon.taken.resume()
            back = hx.drain(ctx.to_proxy_queue)
            if len(back) != 1:
                return False
            try:
                addon.taken.resume()
                return False          # resuming twice must be refused
            except AssertionError:
                pass
            if hx.drain(ctx.to_proxy_queue):
                return False
        else:
            return True
    if len(back) != 1 or back[0][0] != "callback" or back[0][1] != flow.id:
        return False
    # state transfer: metadata / rewritten request / injected response survive
    h2 = HippoHTTPFlow.from_state(back[0][2], px.SM)
    hook_ran = fault not in (1, 2, 3) and not (fault == 7 and False)
    if mode == 4 and addon_reached(is_response, kind, fault):
        if h2.request.url != "https://rewritten.example/new/path?q=1":
            return False
    if mode == 3 and addon_reached(is_response, kind, fault):
        if h2.response is None or not h2.response_injected:
            return False
        # (for wrapper caps the proxy's own redirect replaces whatever response is there: not part of this property)
        if not (kind == 3 and not is_response) and h2.response.content != b"injected by addon":
            return False
    cd2 = h2.cap_data
    if fault != 1 and kind in (1, 2, 6) and not (is_response and False):
        want_name = ["", "Seed", "EventQueueGet", "", "", "", "FetchInventory2"][kind]
        if not cd2 or cd2.cap_name != want_name or cd2.region is None or cd2.region() is not region \
                or cd2.session is None or cd2.session() is not px.SESSION or cd2.type != CapType.NORMAL:
            return False
    if fault != 1 and kind == 4 and not is_response:
        if not cd2 or cd2.cap_name != "MyProxyCap" or cd2.type != CapType.PROXY_ONLY or cd2.region() is not region:
            return False
    return h2.metadata["can_stream"] is True and h2.metadata["from_browser"] is False and h2.metadata["request_injected"] is False


def addon_reached(is_response, kind, fault):
    if fault in (1, 3):
        return False
    if is_response:
        return fault != 6 or True
    return not (fault == 2 and kind == 3)


@harness(pre=["0 <= kind < NK", "0 <= fault < NF", "0 <= mode < NA"], post="_", timeout=900,
         note="fault schedules: event type {request, response} x 7 capability kinds of the URL x 8 raise points (cap "
              "resolution, asset repo, addon hook, session handler, region handler, logger, malformed LLSD body) x 5 addon "
              "behaviours: exactly one ('callback', id, state) is queued per event — immediately unless the addon took the "
              "flow, and then exactly at resume() (second resume refused) — and the handed-back state preserves cap "
              "name/type/region/session, flags, a rewritten URL and an injected response", covers=COVERS)
def flow_fault_schedules(is_response: bool, kind: int, fault: int, mode: int) -> bool:
    return run(is_response, small(kind, 0, NK - 1), small(fault, 0, NF - 1), small(mode, 0, NA - 1))


shard(flow_fault_schedules, "kind", range(NK), KINDS, globals())

EVIDENCE = {
    "bounds": "one event per path; 2 event types x 7 cap kinds x 8 raise points x 5 addon behaviours (all 560 combinations)",
    "outside": "URLs/bodies are a concrete catalogue (mitmproxy state conversion hashes/regex-parses them); the mitmproxy-side "
               "_pump_callbacks loop (needs a running mitmproxy master); preempt()",
    "assumptions": ["exceptions propagating out of pump_proxy_event are logged by MITMProxyEventManager.run()"],
}
