"""C15 — intercepted HTTP flows are handed back exactly once, state intact.

Engine A: the fault schedule is symbolic — event type, capability kind of the URL (incl. a capability owned by a
registered neighbour region that has NO open circuit), the point at which an internal handler raises, and the addon's
behaviour (ignore / take / take + resume later / inject a response / rewrite the URL) — through the real
MITMProxyEventManager.pump_proxy_event, HippoHTTPFlow and CapData (de)hydration.  The routing metadata is observed at
three places: what the addon hook sees at each hop, the SerializedCapData in the handed-back state, and the CapData
re-hydrated from that state.  `two_hop_ownership` chains the real hand-back of the request event into the response
event of the same flow (request -> callback -> response -> callback) for owners with and without a circuit.
"""
import mitmproxy.http
from mitmproxy.http import HTTPFlow
from mitmproxy.test import tutils

from vlib.harness import harness, shard
from harness import proxyfix as px
from harness import httpfix as hx
from harness.proxyfix import small
from hippolyzer.lib.proxy.caps import CapType, SerializedCapData
from hippolyzer.lib.proxy.http_flow import HippoHTTPFlow

_P = "hippolyzer.lib.proxy."
COVERS = (_P + "http_event_manager:MITMProxyEventManager.pump_proxy_event", _P + "http_event_manager:MITMProxyEventManager._handle_request",
          _P + "http_event_manager:MITMProxyEventManager._handle_response", _P + "http_flow:HippoHTTPFlow.take",
          _P + "http_flow:HippoHTTPFlow.resume", _P + "http_flow:HippoHTTPFlow.get_state", _P + "http_flow:HippoHTTPFlow.from_state",
          _P + "caps:CapData.serialize", _P + "caps:CapData.deserialize", _P + "addons:AddonManager.handle_http_request",
          _P + "addons:AddonManager.handle_http_response")

KINDS = ["none", "Seed", "EventQueueGet", "GetTextureProxyWrapper", "ProxyOnly", "Temporary", "Normal", "NoCircuitRegion"]
FAULTS = ["none", "resolve_cap", "asset_repo", "addon_hook", "session_handler", "region_handler", "logger", "bad_body"]
ADDON = ["ignore", "take", "take_resume_later", "inject_response", "rewrite_url"]
NK, NF, NA = len(KINDS), len(FAULTS), len(ADDON)


# a neighbour the viewer was told about (EnableSimulator / EstablishAgentCommunication) whose caps are already in use
# over HTTP while no UDP circuit to it has been opened: registered on the session, `circuit` stays None
NEIGHBOUR = px.SESSION.register_region(circuit_addr=("127.0.0.1", 9), seed_url="https://test.localhost:4/seednb", handle=4567)
K_NOCIRC = 7
# routing metadata each session-owned kind of URL must carry: (cap name, cap type)
ROUTE = {1: ("Seed", CapType.NORMAL), 2: ("EventQueueGet", CapType.NORMAL), 3: ("GetTextureProxyWrapper", CapType.WRAPPER),
         4: ("MyProxyCap", CapType.PROXY_ONLY), 5: ("UploaderThing", CapType.TEMPORARY), 6: ("FetchInventory2", CapType.NORMAL),
         7: ("NeighbourCap", CapType.NORMAL)}


def owner_of(kind):
    return NEIGHBOUR if kind == K_NOCIRC else px.REGION


class Boom(Exception):
    pass


class FlowAddon:
    def __init__(self, mode, fault):
        self.mode, self.fault = mode, fault
        self.taken = None
        self.seen = []               # routing metadata as the hook saw it: (cap name, type, session, region)

    def _do(self, flow):
        cd = flow.cap_data
        self.seen.append((cd.cap_name, cd.type, cd.session() if cd.session else None, cd.region() if cd.region else None)
                         if cd else None)
        if self.fault == 3:
            raise Boom("addon hook")
        if self.mode in (1, 2):
            self.taken = flow.take()
        elif self.mode == 3:
            flow.response = mitmproxy.http.Response.make(200, b"injected by addon", {"Content-Type": "text/plain"})
        elif self.mode == 4:
            flow.request.url = "https://rewritten.example/new/path?q=1"

    def handle_http_request(self, session_manager, flow):
        self._do(flow)

    def handle_http_response(self, session_manager, flow):
        self._do(flow)


def setup_caps(region):
    # shared region object: no cached poll response from an earlier path.  The state is constructed directly rather than
    # through EventQueueManager.clear() (repository code: a clear() that forgets less must not leak between paths)
    from hippolyzer.lib.proxy.region import EventQueueManager
    region.eq_manager = EventQueueManager(region)
    region.caps.clear()
    region.caps["Seed"] = (CapType.NORMAL, "https://test.localhost:4/foo")
    region.register_cap("EventQueueGet", "https://sim.example/eq")
    region.register_cap("GetTexture", "https://assets.example/tex")
    wrapper = region.register_wrapper_cap("GetTexture")
    proxy = region.register_proxy_cap("MyProxyCap")
    region.register_cap("UploaderThing", "https://sim.example/upload/1", CapType.TEMPORARY)
    region.register_cap("FetchInventory2", "https://sim.example/cap/fetch")
    if NEIGHBOUR.circuit is not None:
        raise AssertionError("fixture: the neighbour must not have a circuit")
    NEIGHBOUR.eq_manager = EventQueueManager(NEIGHBOUR)
    NEIGHBOUR.caps.clear()
    NEIGHBOUR.caps["Seed"] = (CapType.NORMAL, "https://test.localhost:4/seednb")
    NEIGHBOUR.register_cap("EventQueueGet", "https://nb.example/eq")
    NEIGHBOUR.register_cap("NeighbourCap", "https://nb.example/cap/nbcap")
    return wrapper, proxy


def url_for(kind, wrapper, proxy):
    return ["https://unknown.example/x", "https://test.localhost:4/foo", "https://sim.example/eq", wrapper + "/?texture_id=1",
            proxy + "/x", "https://sim.example/upload/1", "https://sim.example/cap/fetch/sub", "https://nb.example/cap/nbcap/sub"][kind]


def run(is_response, kind, fault, mode):
    addon = FlowAddon(mode, fault)
    f = px.reset([addon])
    ctx, mgr = hx.fresh_http()
    wrapper, proxy = setup_caps(px.REGION)
    region = owner_of(kind)            # the region owning the requested capability (circuit-less for kind 7)
    url = url_for(kind, wrapper, proxy)
    from urllib.parse import urlsplit
    parts = urlsplit(url)
    body = hx.xml({"ack": 1, "done": False}) if kind == 2 else (hx.xml(["FetchInventory2"]) if kind == 1 else b"payload")
    if fault == 7:
        body = b"<llsd><not-closed"
    resp_body = None
    if is_response:
        resp_body = hx.xml({"id": 2, "events": []}) if kind == 2 else (hx.xml({"FetchInventory2": "https://sim.example/cap/f2"})
                                                                        if kind == 1 else b"ok")
        if fault == 7:
            resp_body = b"<llsd><not-closed"
    flow = hx.make_flow(url_host=parts.hostname, port=parts.port, scheme=parts.scheme,
                        path=parts.path + ("?" + parts.query if parts.query else ""), content=body, resp_content=resp_body)
    if is_response:
        # the response leg arrives with the cap data resolved during the request leg
        cd = px.SM.resolve_cap(url) if kind != 5 else None
        h = HippoHTTPFlow(flow)
        if cd:
            h.cap_data = cd
        if kind == 1:
            flow.metadata["needed_proxy_caps"] = []
        state = h.get_state()
    else:
        state = flow.get_state()
    # fault injection points (wrapped callables raise when selected)
    saved = (px.SM.resolve_cap, px.SM.asset_repo.try_serve_asset, px.SM.message_logger)
    if fault == 1:
        def boom(*a, **k):
            raise Boom("resolve_cap")
        px.SM.resolve_cap = boom
    if fault == 2:
        def boom2(*a, **k):
            raise Boom("asset repo")
        px.SM.asset_repo.try_serve_asset = boom2
    if fault == 4:
        def sub(fl):
            raise Boom("session handler")
        px.SESSION.http_message_handler.handlers.clear()
        px.SESSION.http_message_handler.subscribe("*", sub)
    if fault == 5:
        def sub2(fl):
            raise Boom("region handler")
        region.http_message_handler.handlers.clear()
        region.http_message_handler.subscribe("*", sub2)
    if fault == 6:
        class BadLog:
            def log_http_response(self, flow):
                raise Boom("logger")
        px.SM.message_logger = BadLog()
    try:
        ctx.from_proxy_queue.put(("response" if is_response else "request", state))
        coro = mgr.pump_proxy_event()
        try:
            coro.send(None)
        except StopIteration:
            pass
        except Exception:
            pass                      # MITMProxyEventManager.run() logs and carries on; hand-back must already have happened
        finally:
            coro.close()
    finally:
        if fault == 1:
            del px.SM.resolve_cap
        if fault == 2:
            del px.SM.asset_repo.try_serve_asset
        px.SM.message_logger = saved[2]
        px.SESSION.http_message_handler.handlers.clear()
        region.http_message_handler.handlers.clear()
    back = hx.drain(ctx.to_proxy_queue)
    # routing metadata as seen by the addon hook at this hop (request leg: freshly resolved; response leg: re-hydrated
    # from the state that crossed the process boundary)
    routed = kind in ROUTE and not (kind == 5 and is_response) and (is_response or fault != 1)
    if len(addon.seen) > 1 or (routed and addon_reached(is_response, kind, fault) and len(addon.seen) != 1):
        return False
    for s in addon.seen:
        if routed and (s is None or s[0] != ROUTE[kind][0] or s[1] != ROUTE[kind][1] or s[2] is not px.SESSION
                       or s[3] is not region):
            return False
    took = addon.taken is not None
    if took:
        if back:
            return False              # an owned flow is not handed back behind the owner's back
        if mode == 2:
            addon.taken.resume()
            back = hx.drain(ctx.to_proxy_queue)
            if len(back) != 1:
                return False
            try:
                addon.taken.resume()
                return False          # resuming twice must be refused
            except AssertionError:
                pass
            if hx.drain(ctx.to_proxy_queue):
                return False
        else:
            return True
    if len(back) != 1 or back[0][0] != "callback" or back[0][1] != flow.id:
        return False
    # state transfer: metadata / rewritten request / injected response survive
    ser = back[0][2]["metadata"]["cap_data_ser"]      # (read first: from_state consumes the state dict)
    h2 = HippoHTTPFlow.from_state(back[0][2], px.SM)
    hook_ran = fault not in (1, 2, 3) and not (fault == 7 and False)
    if mode == 4 and addon_reached(is_response, kind, fault):
        if h2.request.url != "https://rewritten.example/new/path?q=1":
            return False
    if mode == 3 and addon_reached(is_response, kind, fault):
        if h2.response is None or not h2.response_injected:
            return False
        # (for wrapper caps the proxy's own redirect replaces whatever response is there: not part of this property)
        if not (kind == 3 and not is_response) and h2.response.content != b"injected by addon":
            return False
    cd2 = h2.cap_data
    if routed:
        # the serialized form that actually crosses the process boundary, and its re-hydration
        if not isinstance(ser, SerializedCapData) or ser.cap_name != ROUTE[kind][0] or ser.type != ROUTE[kind][1].name \
                or ser.session_id != str(px.SESSION.id) or ser.region_addr != str(region.circuit_addr):
            return False
        if not cd2 or cd2.cap_name != ROUTE[kind][0] or cd2.type != ROUTE[kind][1] or cd2.session is None \
                or cd2.session() is not px.SESSION or cd2.region is None or cd2.region() is not region:
            return False
    if fault != 1 and kind in (1, 2, 6, K_NOCIRC) and not (is_response and False):
        want_name = ["", "Seed", "EventQueueGet", "", "", "", "FetchInventory2", "NeighbourCap"][kind]
        if not cd2 or cd2.cap_name != want_name or cd2.region is None or cd2.region() is not region \
                or cd2.session is None or cd2.session() is not px.SESSION or cd2.type != CapType.NORMAL:
            return False
    if fault != 1 and kind == 4 and not is_response:
        if not cd2 or cd2.cap_name != "MyProxyCap" or cd2.type != CapType.PROXY_ONLY or cd2.region() is not region:
            return False
    return h2.metadata["can_stream"] is True and h2.metadata["from_browser"] is False and h2.metadata["request_injected"] is False


def addon_reached(is_response, kind, fault):
    if fault in (1, 3):
        return False
    if is_response:
        return fault != 6 or True
    return not (fault == 2 and kind == 3)


@harness(pre=["0 <= kind < NK", "0 <= fault < NF", "0 <= mode < NA"], post="_", timeout=900,
         note="fault schedules: event type {request, response} x 8 capability kinds of the URL (7 on the main region, 1 owned "
              "by a registered neighbour region that has NO open circuit) x 8 raise points (cap "
              "resolution, asset repo, addon hook, session handler, region handler (of the owning region), logger, malformed "
              "LLSD body) x 5 addon "
              "behaviours: exactly one ('callback', id, state) is queued per event — immediately unless the addon took the "
              "flow, and then exactly at resume() (second resume refused) — and the handed-back state preserves cap "
              "name/type/region/session, flags, a rewritten URL and an injected response; the routing metadata (cap "
              "name/type, session, owning region) is checked as the addon hook sees it at the hop, in the SerializedCapData "
              "of the handed-back state (region address = the owner's circuit address) and after re-hydration", covers=COVERS)
def flow_fault_schedules(is_response: bool, kind: int, fault: int, mode: int) -> bool:
    return run(is_response, small(kind, 0, NK - 1), small(fault, 0, NF - 1), small(mode, 0, NA - 1))


shard(flow_fault_schedules, "kind", range(NK), KINDS, globals())


# ---- the same flow through both hops: request event -> hand-back -> response event -> hand-back ------------------
HOP_CAPS = ["Normal", "Seed", "EventQueueGet"]
HOP_MODES = ["ignore", "take_resume_later"]


class HopAddon:
    """records the routing metadata each hook sees; per hop: ignore / take and resume later; may raise at the request hop"""
    def __init__(self, mode_req, mode_resp, req_raises):
        self.modes = {"request": mode_req, "response": mode_resp}
        self.req_raises = req_raises
        self.seen = []
        self.taken = None

    def _do(self, hop, flow):
        cd = flow.cap_data
        self.seen.append((hop, cd.cap_name, cd.type, cd.session() if cd.session else None, cd.region() if cd.region else None)
                         if cd else (hop, None, None, None, None))
        if self.modes[hop] == 1:
            self.taken = flow.take()
        if hop == "request" and self.req_raises:
            raise Boom("addon hook (request hop)")

    def handle_http_request(self, session_manager, flow):
        self._do("request", flow)

    def handle_http_response(self, session_manager, flow):
        self._do("response", flow)


def one_hop(mgr, ctx, addon, event_type, state, flow_id):
    """pump one event; returns the single handed-back state (after the owner's resume() if the addon took the flow) or None"""
    addon.taken = None
    ctx.from_proxy_queue.put((event_type, state))
    coro = mgr.pump_proxy_event()
    try:
        coro.send(None)
    except StopIteration:
        pass
    except Exception:
        pass
    finally:
        coro.close()
    back = hx.drain(ctx.to_proxy_queue)
    if addon.taken is not None:
        if back:
            return None
        addon.taken.resume()
        back = hx.drain(ctx.to_proxy_queue)
    if len(back) != 1 or back[0][0] != "callback" or back[0][1] != flow_id:
        return None
    return back[0][2]


@harness(pre=["0 <= cap <= 2", "0 <= mode_req <= 1", "0 <= mode_resp <= 1"], post="_", timeout=900,
         note="one flow through both hops (request event -> real hand-back state -> mitmproxy attaches the response -> "
              "response event -> hand-back) for owner region {main region with circuit, registered neighbour WITHOUT circuit} x "
              "cap {Normal, Seed, EventQueueGet} x addon at each hop {ignore, take + resume later} x addon hook raising at the "
              "request hop: one callback per hop; the addon hook sees the same cap name/type/session/owning region at both "
              "hops; the SerializedCapData handed back after the response hop equals the one after the request hop and "
              "names the owner's circuit address; the owner's region-level HTTP handler runs exactly once (response hop) "
              "and a Seed response updates the owner's caps", covers=COVERS)
def two_hop_ownership(no_circuit: bool, cap: int, mode_req: int, mode_resp: int, req_raises: bool) -> bool:
    cap, mode_req, mode_resp = small(cap, 0, 2), small(mode_req, 0, 1), small(mode_resp, 0, 1)
    addon = HopAddon(mode_req, mode_resp, bool(req_raises))
    px.reset([addon])
    ctx, mgr = hx.fresh_http()
    setup_caps(px.REGION)
    if no_circuit:
        owner, host = NEIGHBOUR, "nb.example"
        name, path, port = [("NeighbourCap", "/cap/nbcap/sub", 443), ("Seed", "/seednb", 4), ("EventQueueGet", "/eq", 443)][cap]
    else:
        owner, host = px.REGION, "sim.example"
        name, path, port = [("FetchInventory2", "/cap/fetch/sub", 443), ("Seed", "/foo", 4), ("EventQueueGet", "/eq", 443)][cap]
    if cap == 1:
        host = "test.localhost"
    if (owner.circuit is None) != bool(no_circuit):
        raise AssertionError("fixture: circuit presence")
    body = [b"payload", hx.xml(["FetchInventory2"]), hx.xml({"ack": 1, "done": False})][cap]
    granted = "https://sim.example/cap/f2-" + ("nb" if no_circuit else "main")
    resp_body = [b"ok", hx.xml({"FetchInventory2": granted}), hx.xml({"id": 2, "events": []})][cap]
    handled = []
    px.SESSION.http_message_handler.handlers.clear()
    owner.http_message_handler.handlers.clear()
    other = px.REGION if no_circuit else NEIGHBOUR
    other.http_message_handler.handlers.clear()
    owner.http_message_handler.subscribe("*", lambda fl: handled.append("owner"))
    other.http_message_handler.subscribe("*", lambda fl: handled.append("other"))
    try:
        flow = hx.make_flow(url_host=host, port=port, path=path, content=body)
        st1 = one_hop(mgr, ctx, addon, "request", flow.get_state(), flow.id)
        if st1 is None:
            return False
        ser1 = st1["metadata"]["cap_data_ser"]
        # the HTTP proxy process performs the request and reports the response for the very state it got back
        f2 = HTTPFlow.from_state(st1)
        f2.response = tutils.tresp(content=resp_body, status_code=200)
        st2 = one_hop(mgr, ctx, addon, "response", f2.get_state(), flow.id)
        if st2 is None:
            return False
        ser2 = st2["metadata"]["cap_data_ser"]
    finally:
        owner.http_message_handler.handlers.clear()
        other.http_message_handler.handlers.clear()
    want = SerializedCapData(cap_name=name, region_addr=str(owner.circuit_addr), session_id=str(px.SESSION.id),
                             base_url=["https://" + host + path[:-4], "https://test.localhost:4" + path,
                                       "https://" + host + "/eq"][cap], type="NORMAL")
    if ser1 != want or ser2 != want:
        return False
    if len(addon.seen) != 2:
        return False
    for hop, s in zip(("request", "response"), addon.seen):
        if s[0] != hop or s[1] != name or s[2] != CapType.NORMAL or s[3] is not px.SESSION or s[4] is not owner:
            return False
    if handled != ["owner"]:
        return False
    if cap == 1 and owner.cap_urls.get("FetchInventory2") != granted:
        return False
    h3 = HippoHTTPFlow.from_state(st2, px.SM)
    cd3 = h3.cap_data
    return bool(cd3) and cd3.region is not None and cd3.region() is owner and cd3.session is not None \
        and cd3.session() is px.SESSION and cd3.cap_name == name

EVIDENCE = {
    "bounds": "one event per path; 2 event types x 8 cap kinds (7 on the main region + 1 owned by a circuit-less neighbour "
              "region) x 8 raise points x 5 addon behaviours (all 640 combinations); two-hop chains: 2 owners x 3 caps x 2 x 2 "
              "addon behaviours x 2 (request hook raises) = 48",
    "outside": "URLs/bodies are a concrete catalogue (mitmproxy state conversion hashes/regex-parses them); the mitmproxy-side "
               "_pump_callbacks loop (needs a running mitmproxy master); preempt()",
    "assumptions": ["exceptions propagating out of pump_proxy_event are logged by MITMProxyEventManager.run()"],
}
