"""Shared fixture: the real proxy stack (SessionManager / Session / ProxiedRegion / ProxiedCircuit /
InterceptingLLUDPProxyProtocol / AddonManager) with environment stubs applied from the harness side.

Built once at import (the session/region/protocol objects), only circuit / transport / addons are rebuilt per
path by `reset()`.  Stubs (all listed in DESIGN.md §0): template hot-reload stat, addon hot-reload, clocks read
through `circuit.dt`, the byte serializer on circuits (snapshot recorder: the byte codec is C01's subject).
"""
import asyncio

import hippolyzer.lib.base.message.message as _message_mod
import hippolyzer.lib.base.message.circuit as circuit_mod
import hippolyzer.lib.base.serialization as se
from hippolyzer.lib.base.datatypes import UUID
from hippolyzer.lib.base.message.message import Message, Block
from hippolyzer.lib.base.message.msgtypes import PacketFlags
from hippolyzer.lib.base.network.transport import Direction, UDPPacket
from hippolyzer.lib.proxy.addons import AddonManager
from hippolyzer.lib.proxy.circuit import ProxiedCircuit
from hippolyzer.lib.proxy.lludp_proxy import InterceptingLLUDPProxyProtocol
from hippolyzer.lib.proxy.sessions import SessionManager
from hippolyzer.lib.proxy.settings import ProxySettings
from vlib.adapt import coerce_bool_dunders

coerce_bool_dunders(se)
_message_mod.maybe_reload_templates = lambda: None
AddonManager._reload_addons = classmethod(lambda cls, raise_exceptions=False: None)

_LOOP = asyncio.new_event_loop()
asyncio.set_event_loop(_LOOP)


# ---- clock shim (Circuit reads time through the module-level name `dt`) ----------------------------------------
class _T:
    def __init__(self, s):
        self.s = s

    def __sub__(self, other):
        return _D(self.s - other.s)


class _D:
    def __init__(self, s):
        self.s = s

    def __lt__(self, other):
        return self.s < other.s

    def __ge__(self, other):
        return self.s >= other.s


class Clock:
    now_s = 0

    class datetime:
        @staticmethod
        def now():
            return _T(Clock.now_s)

    @staticmethod
    def timedelta(seconds=0):
        return _D(seconds)


circuit_mod.dt = Clock


class Snap:
    """what went on the wire, as a value"""
    def __init__(self, msg: Message):
        self.obj = msg
        self.name = msg.name
        self.packet_id = msg.packet_id
        self.flags = int(msg.send_flags)
        self.acks = tuple(msg.acks)
        self.ids = tuple(b["ID"] for b in msg["Packets"]) if msg.name == "PacketAck" else ()
        self.direction = msg.direction
        self.synthetic = msg.synthetic
        self.body = msg.to_dict()["body"]


class SnapSerializer:
    def serialize(self, msg):
        return Snap(msg)


class Recorder:
    def __init__(self):
        self.sent = []          # (Snap, dst_addr)

    def send_packet(self, packet):
        self.sent.append((packet.data, packet.dst_addr))

    def close(self):
        pass


class LogRecorder:
    """stands in for session_manager.message_logger"""
    def __init__(self):
        self.logged = []

    def log_lludp_message(self, session, region, message):
        self.logged.append(message)

    def log_http_response(self, flow):
        pass

    def log_eq_event(self, session, region, event):
        pass


CLIENT = ("127.0.0.1", 1)
SIM = ("127.0.0.1", 3)
SM = SessionManager(ProxySettings())
SESSION = SM.create_session({
    "session_id": UUID("11111111-1111-1111-1111-111111111111"),
    "secure_session_id": UUID("22222222-2222-2222-2222-222222222222"),
    "agent_id": UUID("33333333-3333-3333-3333-333333333333"),
    "circuit_code": 1234, "sim_ip": SIM[0], "sim_port": SIM[1], "region_x": 0, "region_y": 123,
    "seed_capability": "https://test.localhost:4/foo",
})
PROTO = InterceptingLLUDPProxyProtocol(CLIENT, SM)
SM.claim_session(SESSION.id)
PROTO.session = SESSION
REGION = SESSION.regions[-1]
SESSION.main_region = REGION


class Fix:
    pass


def reset(addons=()):
    """fresh circuit / transport / logger / addon list on the shared session and region"""
    f = Fix()
    f.rec = Recorder()
    f.log = LogRecorder()
    PROTO.transport = f.rec
    PROTO.far_to_near_map.clear()
    PROTO.far_to_near_map[SIM] = CLIENT
    SM.message_logger = f.log
    REGION.circuit = ProxiedCircuit(CLIENT, SIM, f.rec, logging_hook=None)
    REGION.circuit.serializer = SnapSerializer()
    SESSION.message_handler.handlers.clear()
    REGION.message_handler.handlers.clear()
    AddonManager.SESSION_MANAGER = SM
    AddonManager._SWALLOW_ADDON_EXCEPTIONS = True
    AddonManager.FRESH_ADDON_MODULES.clear()
    for i, a in enumerate(addons):
        AddonManager.FRESH_ADDON_MODULES[f"addon{i}"] = a
    Clock.now_s = 0
    f.circuit = REGION.circuit
    f.region = REGION
    f.session = SESSION
    return f


class _Deser:
    """the protocol's deserializer, stubbed to hand over the prepared Message object"""
    def __init__(self):
        self.queue = []

    def deserialize(self, data):
        return self.queue.pop(0)


PROTO.deserializer = _Deser()


def inject_packet(msg: Message, outgoing: bool):
    """run one datagram carrying `msg` through the real handle_proxied_packet"""
    PROTO.deserializer.queue.append(msg)
    src, dst = (CLIENT, SIM) if outgoing else (SIM, CLIENT)
    pkt = UDPPacket(src_addr=src, dst_addr=dst, data=b"", direction=Direction.OUT if outgoing else Direction.IN)
    PROTO.handle_proxied_packet(pkt)


def chat(pid, reliable=False, outgoing=True, channel=0, text="hi", acks=()):
    flags = (int(PacketFlags.RELIABLE) if reliable else 0) | (int(PacketFlags.ACK) if acks else 0)
    if outgoing:
        return Message("ChatFromViewer", Block("AgentData", AgentID=SESSION.agent_id, SessionID=SESSION.id),
                       Block("ChatData", Message=text, Type=1, Channel=channel), packet_id=pid, flags=flags, acks=tuple(acks),
                       direction=Direction.OUT)
    return Message("ChatFromSimulator",
                   Block("ChatData", FromName="Someone", SourceID=SESSION.agent_id, OwnerID=SESSION.agent_id, SourceType=1,
                         ChatType=1, Audible=1, Position=(0.0, 0.0, 0.0), Message=text),
                   packet_id=pid, flags=flags, acks=tuple(acks), direction=Direction.IN)


def small(x, lo, hi):
    for v in range(lo, hi + 1):
        if x == v:
            return v
    raise AssertionError("selector out of range")
