"""C08 — serialization combinators: read(write(v)) == v, exact framing, composable.

Engine A.  The *program* (which combinator, which child specs) is chosen by symbolic selector
integers over a leaf alphabet, the *value* is assembled type-directed from symbolic ints / bytes /
strs, and byte order, pod mode and trailing bytes are symbolic.  Every obligation runs the repo's
real `serialize`/`deserialize`/`calc_size` of the composed spec.
"""
import dataclasses
import enum
from typing import List

from vlib.harness import harness
import hippolyzer.lib.base.serialization as se
from hippolyzer.lib.base import datatypes as dt
from vlib.adapt import coerce_bool_dunders

coerce_bool_dunders(se)


class _PyProxy:
    """pure-Python stand-in for the C extension type lazy_object_proxy.Proxy (environment stub: the
    extension forces/realizes symbolic values at the C boundary). Same contract: wraps a factory, evaluates it on
    first use, exposes the result as __wrapped__."""

    def __init__(self, factory):
        self._factory = factory
        self._have = False
        self._value = None

    @property
    def __wrapped__(self):
        if not self._have:
            self._value = self._factory()
            self._have = True
        return self._value


import types as _types  # noqa: E402
se.lazy_object_proxy = _types.SimpleNamespace(Proxy=_PyProxy)

_S = "hippolyzer.lib.base.serialization:"


class E(dt.IntEnum):
    ZERO = 0
    ONE = 1
    TWO = 2
    SEVEN = 7


class F(dt.IntFlag):
    A = 1
    B = 2
    C = 4
    TOP = 0x80


for _i in range(256):   # pre-populate enum.Flag's pseudo-member cache (otherwise non-deterministic across paths)
    F(_i)

_UUIDS = [dt.UUID("00000000-0000-0000-0000-000000000000"), dt.UUID("ffffffff-ffff-ffff-ffff-ffffffffffff"),
          dt.UUID("01234567-89ab-cdef-0123-456789abcdef")]
_VECS = [(0.0, -0.0, 1.5), (-1.25, 3.0, 1e10), (0.5, 0.25, -8.0)]


def small(x, lo, hi):
    """concrete python int for a symbolic x in [lo, hi] (forks once per value)."""
    for v in range(lo, hi + 1):
        if x == v:
            return v
    raise AssertionError("selector out of range")


def has_byte(bs, v) -> bool:
    """`v in bs` for a single byte value (bytes.__contains__ on symbolic bytes means sub-sequence search
    and realizes the operand)."""
    for x in bs:
        if x == v:
            return True
    return False


def flag_pod(a):
    """plain-data form of F(a): member names for set member bits + leftover int."""
    names = []
    left = a
    for name, bit in (("A", 1), ("B", 2), ("C", 4), ("TOP", 0x80)):
        if (a // bit) % 2 == 1:
            names.append(name)
            left -= bit
    return tuple(names) + ((left,) if left else ())


# 64-bit quantities: a concrete base from this catalogue plus a symbolic offset in [0,255] (z3 does not decide
# the 8-byte to_bytes/from_bytes identity over the full 2^64 range within the budget; 32-bit and below are full range)
B64 = [0, 2**8, 2**16 - 128, 2**31 - 128, 2**32 - 128, 2**48 - 128, 2**56, 2**63 - 256, 2**63 - 128, 2**63,
       2**64 - 512, 2**64 - 256]


def v64(a):
    return B64[small(a // 256, 0, len(B64) - 1)] + a % 256


class Leaf:
    def __init__(self, name, spec, dom, val, size=None, ints=True):
        self.name, self.spec, self.dom, self.val, self.size = name, spec, dom, val, size


def _rng(lo, hi):
    return lambda a, s: lo <= a <= hi


def _ident(pod, a, s):
    return a


# self-delimiting leaves: value comes from one symbolic int `a` and one symbolic bytes `s`
LEAVES: List[Leaf] = [
    Leaf("U8", se.U8, _rng(0, 2**8 - 1), _ident, 1),
    Leaf("S8", se.S8, _rng(-2**7, 2**7 - 1), _ident, 1),
    Leaf("U16", se.U16, _rng(0, 2**16 - 1), _ident, 2),
    Leaf("S16", se.S16, _rng(-2**15, 2**15 - 1), _ident, 2),
    Leaf("U32", se.U32, _rng(0, 2**32 - 1), _ident, 4),
    Leaf("S32", se.S32, _rng(-2**31, 2**31 - 1), _ident, 4),
    Leaf("U64", se.U64, _rng(0, 256 * len(B64) - 1), lambda pod, a, s: v64(a), 8),
    Leaf("S64", se.S64, _rng(0, 256 * len(B64) - 1), lambda pod, a, s: v64(a) - 2**63, 8),
    Leaf("ByteArray(U8)", se.ByteArray(se.U8), lambda a, s: len(s) <= 2, lambda pod, a, s: s),
    Leaf("BytesFixed(2)", se.BytesFixed(2), lambda a, s: len(s) == 2, lambda pod, a, s: s, 2),
    Leaf("BytesTerminated(NUL)", se.BytesTerminated((b"\x00",)), lambda a, s: len(s) <= 2 and not has_byte(s, 0),
         lambda pod, a, s: s),
    Leaf("IntEnum(E,U8)", se.IntEnum(E, se.U8), _rng(0, 255),
         lambda pod, a, s: (E(a).name if pod else E(a)) if a in (0, 1, 2, 7) else a, 1),
    Leaf("IntFlag(F,U8)", se.IntFlag(F, se.U8), lambda a, s: 0 <= a <= 255 and (a // 8) in (0, 1, 16, 17, 31),
         lambda pod, a, s: flag_pod(a) if pod else F(small(a, 0, 255)), 1),
    Leaf("BoolAdapter(U8)", se.BoolAdapter(se.U8), _rng(0, 1), lambda pod, a, s: a == 1, 1),
    Leaf("Tuple(U8,S16)", se.Tuple(se.U8, se.S16), _rng(0, 2**24 - 1),
         lambda pod, a, s: [a % 256, a // 256 - 2**15], 3),
    Leaf("Template{x:U8,y:ByteArray(U8)}", se.Template({"x": se.U8, "y": se.ByteArray(se.U8)}),
         lambda a, s: 0 <= a <= 255 and len(s) <= 2, lambda pod, a, s: {"x": a, "y": s}),
    Leaf("OptionalPrefixed(U16)", se.OptionalPrefixed(se.U16), _rng(-1, 2**16 - 1),
         lambda pod, a, s: None if a == -1 else a),
    Leaf("BitField(U16,{lo:4,hi:12})", se.BitField(se.U16, {"lo": 4, "hi": 12}),
         lambda a, s: 0 <= a < 2**16 and (a < 48 or a >= 2**16 - 48),   # `|` realizes its operands: 96 values
         lambda pod, a, s: {"lo": a % 16, "hi": a // 16}, 2),
    Leaf("UUID", se.UUID, _rng(0, 2), lambda pod, a, s: (str(_UUIDS[small(a, 0, 2)]) if pod else _UUIDS[small(a, 0, 2)]), 16),
    Leaf("Vector3", se.Vector3, _rng(0, 2),
         lambda pod, a, s: (_VECS[small(a, 0, 2)] if pod else dt.Vector3(*_VECS[small(a, 0, 2)])), 12),
]
NL = len(LEAVES)
# a reduced alphabet for the quadratic (two-child) obligations
PAIR = [0, 3, 5, 8, 10, 11, 14, 16]     # U8 S16 S32 ByteArray BytesTerminated IntEnum Tuple OptionalPrefixed
NP = len(PAIR)

# rest-of-window leaves (only round-trip when their encoding ends the window)
GREEDY: List[Leaf] = [
    Leaf("BytesGreedy", se.BytesGreedy(), lambda a, s: len(s) <= 3, lambda pod, a, s: s),
    Leaf("Collection(None,U16)", se.Collection(None, se.U16), _rng(0, 2**32 - 1),
         lambda pod, a, s: [a % 65536, a // 65536]),
    Leaf("IfPresent(U8)", se.IfPresent(se.U8), _rng(-1, 255), lambda pod, a, s: None if a == -1 else a),
    Leaf("TypedBytesGreedy(Tuple(U8,U8))", se.TypedBytesGreedy(se.Tuple(se.U8, se.U8)), _rng(0, 2**16 - 1),
         lambda pod, a, s: [a % 256, a // 256]),
    Leaf("LengthSwitch{1:U8,2:U16,None:BytesGreedy}",
         se.LengthSwitch({1: se.U8, 2: se.U16, None: se.BytesGreedy()}),
         lambda a, s: (0 <= a <= 65535) and len(s) in (0, 3),
         lambda pod, a, s: _tagged(pod, *((1, a) if (a <= 255 and not s) else ((2, a) if not s else (3, s))))),
    Leaf("BytesTerminated(NUL,no-write-term)", se.BytesTerminated((b"\x00",), write_terminator=False),
         lambda a, s: len(s) <= 2 and not has_byte(s, 0), lambda pod, a, s: s),
]
NG = len(GREEDY)


def _tagged(pod, tag, value):
    return (tag, value) if pod else dt.TaggedUnion(tag, value)


def norm(v):
    """structural normal form for comparison (lists/tuples/recordclasses -> tuples, bytes-likes -> bytes)."""
    if isinstance(v, (bytes, bytearray, memoryview)):
        return bytes(v)
    if isinstance(v, (dt.TaggedUnion,)):
        return ("TU", norm(v.tag), norm(v.value))
    if isinstance(v, dt.TupleCoord):
        return ("TC", type(v).__name__) + tuple(v)
    if isinstance(v, (list, tuple)):
        return tuple(norm(x) for x in v)
    if isinstance(v, dict):
        return tuple((k, norm(x)) for k, x in v.items())
    if dataclasses.is_dataclass(v) and not isinstance(v, type):
        return (type(v).__name__,) + tuple(norm(getattr(v, f.name)) for f in dataclasses.fields(v))
    return v


def same(got, want) -> bool:
    g, w = norm(got), norm(want)
    return type(g) is type(w) and g == w if not isinstance(w, (int, str)) else (g == w and isinstance(g, type(w)))


def roundtrip(spec, value, big: bool, pod: bool, trail: bytes, want=None, size="auto") -> bool:
    """The property for one (spec, value): exact read-back, exact consumption, trailing bytes untouched,
    calc_size() never fails and is exact when it reports a size."""
    e = ">" if big else "<"
    w = se.BufferWriter(e)
    w.write(spec, value)
    data = w.copy_buffer()
    r = se.BufferReader(e, data + trail, pod=pod)
    got = r.read(spec)
    if not same(got, value if want is None else want):
        return False
    if r.tell() != len(data) or bytes(r.read_bytes(len(r))) != trail:
        return False
    sz = spec.calc_size()
    return sz is None or sz == len(data)


import inspect  # noqa: E402


def _shard(base, param, value, label, tiers=None):
    """One obligation per concrete value of a selector parameter (run in parallel); the base function's
    other parameters stay symbolic."""
    spec = base.__verif__
    sig = inspect.signature(base)
    newsig = sig.replace(parameters=[p for n, p in sig.parameters.items() if n != param])

    def w(*a, **kw):
        b = newsig.bind(*a, **kw)
        return base(**{param: value}, **b.arguments)
    w.__signature__ = newsig
    w.__annotations__ = {n: p.annotation for n, p in newsig.parameters.items()}
    w.__name__ = w.__qualname__ = f"{base.__name__}__{label}"
    w.__module__ = base.__module__
    import re
    pre = [f"(lambda {param}: {p})({value!r})" if re.search(rf"\b{param}\b", p) else p for p in spec.pre]
    w = harness(pre=pre, post=spec.post, raises=spec.raises, timeout=spec.timeout, note=f"[{param}={label}] " + spec.note,
                covers=spec.covers, tiers=tiers or spec.tiers)(w)
    globals()[w.__name__] = w
    return w


def _shard_all(base, param, values, labels, quick=None):
    for v, lb in zip(values, labels):
        _shard(base, param, v, lb, tiers=None if (quick is None or v in quick) else ("thorough",))
    del base.__verif__      # only the shards are obligations


_LEAF_COVERS = (_S + "SerializablePrimitive.serialize", _S + "Struct.deserialize", _S + "ByteArray.serialize",
                _S + "ByteArray.deserialize", _S + "BytesFixed.serialize", _S + "BytesTerminated.deserialize",
                _S + "IntEnum.decode", _S + "IntFlag.decode", _S + "Tuple.deserialize", _S + "Template.deserialize",
                _S + "OptionalPrefixed.deserialize", _S + "BitField.decode", _S + "BufferReader.read_bytes",
                "hippolyzer.lib.base.helpers:BitField.pack", "hippolyzer.lib.base.helpers:BitField.unpack",
                "hippolyzer.lib.base.datatypes:flags_to_pod")


def _ident_name(s):
    return "".join(ch if ch.isalnum() else "_" for ch in s).strip("_")


def _mk_leaf(i):
    lf = LEAVES[i]

    def fn(a: int, s: bytes, big: bool, pod: bool, trail: bytes) -> bool:
        if not roundtrip(lf.spec, lf.val(pod, a, s), big, pod, trail):
            return False
        return lf.spec.calc_size() == lf.size
    fn.__name__ = fn.__qualname__ = f"leaf_{i:02d}_{_ident_name(lf.name)}"
    return harness(pre=[f"LEAVES[{i}].dom(a, s)", "len(s) <= 2", "len(trail) <= 2"], post="_", timeout=300,
                   note=f"self-delimiting leaf spec {lf.name}: every value of its domain x both byte orders x pod/non-pod x "
                        "0-2 arbitrary trailing bytes: exact round trip, exact consumption, trailing bytes untouched, "
                        "declared fixed size == encoded size", covers=_LEAF_COVERS)(fn)


def _mk_greedy(i):
    lf = GREEDY[i]

    def fn(a: int, s: bytes, big: bool, pod: bool) -> bool:
        return roundtrip(lf.spec, lf.val(pod, a, s), big, pod, b"")
    fn.__name__ = fn.__qualname__ = f"rest_{i:02d}_{_ident_name(lf.name)}"
    return harness(pre=[f"GREEDY[{i}].dom(a, s)", "len(s) <= 3"], post="_", timeout=120,
                   note=f"rest-of-window leaf spec {lf.name} round-trips when its encoding ends the window",
                   covers=(_S + "BytesGreedy.deserialize", _S + "Collection.deserialize", _S + "IfPresent.deserialize",
                           _S + "TypedBytesBase.deserialize", _S + "LengthSwitch.deserialize",
                           _S + "LengthSwitch.serialize"))(fn)


for _i in range(NL):
    _f = _mk_leaf(_i)
    globals()[_f.__name__] = _f
for _i in range(NG):
    _f = _mk_greedy(_i)
    globals()[_f.__name__] = _f
del _f


STR_SPECS = [se.Str(se.U8), se.Str(se.U16, null_term=False), se.StrFixed(4), se.CStr()]


@harness(pre=["0 <= c < 4", "len(t) <= 2", "chr(0) not in t", "len(trail) <= 1"], post="_", timeout=240,
         note="string specs (length-prefixed with/without NUL, fixed width NUL padded, C string) on any str of <=2 code "
              "points without NUL (NUL-stripping is the documented normal form) incl. non-ASCII, with trailing bytes",
         covers=(_S + "Str.serialize", _S + "Str.deserialize", _S + "StrFixed.serialize", _S + "CStr.deserialize"))
def leaf_strings(c: int, t: str, big: bool, trail: bytes) -> bool:
    c = small(c, 0, 3)
    if c == 2 and len(t.encode("utf8")) > 4:
        return True
    return roundtrip(STR_SPECS[c], t, big, False, trail)


_PAIRPRE = ["0 <= c1 < NP", "0 <= c2 < NP", "LEAVES[PAIR[small(c1, 0, NP - 1)]].dom(a1, s1)",
            "LEAVES[PAIR[small(c2, 0, NP - 1)]].dom(a2, s2)", "len(trail) <= 1"]


@harness(pre=_PAIRPRE, post="_", timeout=420,
         note="composition: Tuple(X, Y) and Template{p:X, q:Y} for every pair of leaves from the reduced alphabet: "
              "self-delimiting specs compose (value then arbitrary trailing bytes), size == sum of sizes or None",
         covers=(_S + "Tuple.serialize", _S + "Tuple.deserialize", _S + "Tuple.calc_size", _S + "Template.serialize",
                 _S + "Template.deserialize", _S + "Template.calc_size"))
def compose_tuple_template(c1: int, c2: int, a1: int, s1: bytes, a2: int, s2: bytes, big: bool, pod: bool,
                           trail: bytes) -> bool:
    l1, l2 = LEAVES[PAIR[small(c1, 0, NP - 1)]], LEAVES[PAIR[small(c2, 0, NP - 1)]]
    v1, v2 = l1.val(pod, a1, s1), l2.val(pod, a2, s2)
    tup = se.Tuple(l1.spec, l2.spec)
    tmpl = se.Template({"p": l1.spec, "q": l2.spec})
    want = None if (l1.size is None or l2.size is None) else l1.size + l2.size
    return roundtrip(tup, [v1, v2], big, pod, trail) and roundtrip(tmpl, {"p": v1, "q": v2}, big, pod, trail) \
        and tup.calc_size() == want and tmpl.calc_size() == want


def _vals(lf, pod, n, a1, s1, a2, s2):
    return [lf.val(pod, a1, s1), lf.val(pod, a2, s2)][:n]


_COLLPRE = ["0 <= c < NL", "0 <= n <= 2", "LEAVES[small(c, 0, NL - 1)].dom(a1, s1)",
            "LEAVES[small(c, 0, NL - 1)].dom(a2, s2)", "len(trail) <= 1"]


@harness(pre=_COLLPRE, post="_", timeout=420,
         note="Collection with a U8 count prefix, with a fixed count n in {0,1,2}, over every leaf: exact round trip and "
              "trailing bytes untouched (a fixed-count collection is self-delimiting, also for n == 0)",
         covers=(_S + "Collection.serialize", _S + "Collection.deserialize"))
def collection_counted(c: int, n: int, a1: int, s1: bytes, a2: int, s2: bytes, big: bool, pod: bool,
                       trail: bytes) -> bool:
    lf = LEAVES[small(c, 0, NL - 1)]
    n = small(n, 0, 2)
    vals = _vals(lf, pod, n, a1, s1, a2, s2)
    return roundtrip(se.Collection(se.U8, lf.spec), vals, big, pod, trail) and \
        roundtrip(se.Collection(n, lf.spec), vals, big, pod, trail)


@harness(pre=_COLLPRE[:-1], post="_", timeout=300,
         note="greedy Collection over every leaf round-trips at the end of the window; the same greedy collection wrapped "
              "in a length-prefixed typed byte array becomes self-delimiting (greedy inside length-prefixed)",
         covers=(_S + "Collection.deserialize", _S + "TypedBytesBase.serialize", _S + "TypedBytesBase._deserialize_inner"))
def collection_greedy_and_wrapped(c: int, n: int, a1: int, s1: bytes, a2: int, s2: bytes, big: bool, pod: bool) -> bool:
    lf = LEAVES[small(c, 0, NL - 1)]
    n = small(n, 0, 2)
    vals = _vals(lf, pod, n, a1, s1, a2, s2)
    g = se.Collection(None, lf.spec)
    return roundtrip(g, vals, big, pod, b"") and \
        roundtrip(se.TypedByteArray(se.U16, g), vals, big, pod, b"\x07")


@harness(pre=["0 <= c < NL", "LEAVES[small(c, 0, NL - 1)].dom(a, s)", "len(trail) <= 1", "0 <= fl <= 3"], post="_",
         timeout=240,
         note="optionals over every leaf: OptionalPrefixed (present/absent), IfPresent at end of window, OptionalFlagged "
              "keyed on a sibling flag field (flag bit clear/set x all other bits clear/set)",
         covers=(_S + "OptionalPrefixed.serialize", _S + "OptionalPrefixed.deserialize", _S + "IfPresent.serialize",
                 _S + "OptionalFlagged.serialize", _S + "OptionalFlagged.deserialize", _S + "OptionalFlagged._normalize_flag_val"))
def optionals(c: int, a: int, s: bytes, present: bool, fl: int, big: bool, pod: bool, trail: bytes) -> bool:
    lf = LEAVES[small(c, 0, NL - 1)]
    v = lf.val(pod, a, s) if present else None
    if not roundtrip(se.OptionalPrefixed(lf.spec), v, big, pod, trail):
        return False
    if v is not None or lf.name != "OptionalPrefixed(U16)":
        # IfPresent(None-able child) cannot tell "absent" from "present None": outside the spec's domain
        if not (lf.val(pod, a, s) is None) and not roundtrip(se.IfPresent(lf.spec), v, big, pod, b""):
            return False
    fl = [0x00, 0x02, 0xFD, 0xFF][small(fl, 0, 3)]     # `&` realizes the flag byte: bit clear/set x other bits clear/set
    has = (fl // 2) % 2 == 1
    tmpl = se.Template({"flags": se.U8, "x": se.OptionalFlagged("flags", se.U8, F.B, lf.spec)})
    val = {"flags": fl, "x": lf.val(pod, a, s) if has else None}
    return roundtrip(tmpl, val, big, pod, trail)


@harness(pre=_PAIRPRE + ["0 <= tag <= 2"], post="_", timeout=420,
         note="switches: EnumSwitch and ContextSwitch / ContextAdapter select the child by tag / sibling field for every "
              "pair of leaves; pod mode uses names",
         covers=(_S + "EnumSwitch.serialize", _S + "EnumSwitch.deserialize", _S + "ContextSwitch.deserialize",
                 _S + "ContextSwitch.serialize", _S + "ContextMixin._choose_option", _S + "ContextAdapter.decode"))
def switches(c1: int, c2: int, a1: int, s1: bytes, a2: int, s2: bytes, tag: int, big: bool, pod: bool,
             trail: bytes) -> bool:
    l1, l2 = LEAVES[PAIR[small(c1, 0, NP - 1)]], LEAVES[PAIR[small(c2, 0, NP - 1)]]
    tag = small(tag, 0, 2)
    es = se.EnumSwitch(se.IntEnum(E, se.U8), {E.ZERO: l1.spec, E.ONE: l2.spec, E.TWO: se.Null})
    member = [E.ZERO, E.ONE, E.TWO][tag]
    inner = [l1.val(pod, a1, s1), l2.val(pod, a2, s2), None][tag]
    v = (member.name, inner) if pod else dt.TaggedUnion(member, inner)
    if not roundtrip(es, v, big, pod, trail):
        return False
    cs = se.Template({"kind": se.U8, "body": se.ContextSwitch(lambda ctx: ctx.kind, {0: l1.spec, 1: l2.spec,
                                                                                      se.MISSING: se.Null})})
    if not roundtrip(cs, {"kind": tag, "body": inner}, big, pod, trail):
        return False
    ca = se.Template({"kind": se.U8, "body": se.ContextAdapter(
        lambda ctx: ctx.kind, se.U8, {0: se.IntEnum(E), 1: se.BoolAdapter(), se.MISSING: se.IdentityAdapter()})})
    raw = a1 % 2
    body = [(E(raw).name if pod else E(raw)), raw == 1, raw][tag]
    return roundtrip(ca, {"kind": tag, "body": body}, big, pod, trail)


@harness(pre=_PAIRPRE[:4] + ["0 <= fl <= 3", "len(trail) <= 1"], post="_", timeout=420,
         note="FlagSwitch: children present exactly for the set flag bits (all 4 subsets), keyed by member (non-pod) or "
              "name (pod), value dict in spec order or reversed, for every pair of leaves",
         covers=(_S + "FlagSwitch.serialize", _S + "FlagSwitch.deserialize", _S + "IntFlag.encode"))
def flag_switch(c1: int, c2: int, a1: int, s1: bytes, a2: int, s2: bytes, fl: int, big: bool, pod: bool,
                trail: bytes, rev: bool) -> bool:
    l1, l2 = LEAVES[PAIR[small(c1, 0, NP - 1)]], LEAVES[PAIR[small(c2, 0, NP - 1)]]
    fl = small(fl, 0, 3)
    fs = se.FlagSwitch(se.IntFlag(F, se.U8), {F.A: l1.spec, F.B: l2.spec})
    items = []
    if fl % 2:
        items.append(("A" if pod else F.A, l1.val(pod, a1, s1)))
    if fl // 2:
        items.append(("B" if pod else F.B, l2.val(pod, a2, s2)))
    want = dict(items)           # what the reader returns: members in the spec's order
    if rev:
        items.reverse()          # a value dict need not list its members in the spec's order
    return roundtrip(fs, dict(items), big, pod, trail, want=want)


@harness(pre=["0 <= c < NL", "LEAVES[small(c, 0, NL - 1)].dom(a, s)", "len(trail) <= 1", "0 <= k <= 5"], post="_",
         timeout=420,
         note="typed-bytes wrappers over every leaf: length-prefixed, fixed (exact size), greedy (end of window), "
              "terminated; lazy variant forced before comparison; empty_is_none (absent, and present values incl. falsy ones)",
         covers=(_S + "TypedBytesBase.serialize", _S + "TypedBytesBase.deserialize", _S + "TypedBytesBase._deserialize_inner",
                 _S + "TypedBytesTerminated.serialize", _S + "TypedBytesBase._lazy_deserialize_inner"))
def typed_bytes(c: int, k: int, a: int, s: bytes, big: bool, pod: bool, trail: bytes) -> bool:
    lf = LEAVES[small(c, 0, NL - 1)]
    v = lf.val(pod, a, s)
    k = small(k, 0, 5)
    if k == 0:
        return roundtrip(se.TypedByteArray(se.U8, lf.spec), v, big, pod, trail)
    if k == 1:
        if lf.size is None:
            return True
        return roundtrip(se.TypedBytesFixed(lf.size, lf.spec), v, big, pod, trail)
    if k == 2:
        return roundtrip(se.TypedBytesGreedy(lf.spec), v, big, pod, b"")
    if k == 3:
        spec = se.TypedByteArray(se.U16, lf.spec, lazy=True)
        e = ">" if big else "<"
        w = se.BufferWriter(e)
        w.write(spec, v)
        data = w.copy_buffer()
        r = se.BufferReader(e, data + trail, pod=pod)
        got = r.read(spec)
        if isinstance(got, _PyProxy):
            got = got.__wrapped__
        return same(got, v) and r.tell() == len(data)
    if k == 4:
        if not roundtrip(se.TypedByteArray(se.U8, lf.spec, empty_is_none=True), None, big, pod, trail):
            return False
        # ... and a present value (also a falsy one such as 0, "" or b"") is not confused with "absent", provided its own
        # encoding is not empty (an empty inner encoding IS the absent form by definition of empty_is_none)
        w = se.BufferWriter(">" if big else "<")
        w.write(lf.spec, v)
        if len(w.copy_buffer()) == 0:
            return True
        return roundtrip(se.TypedByteArray(se.U8, lf.spec, empty_is_none=True), v, big, pod, trail)
    # terminated: only for payloads that do not contain the terminator themselves
    w = se.BufferWriter(">" if big else "<")
    w.write(lf.spec, v)
    if has_byte(w.copy_buffer(), 0xFF):
        return True
    return roundtrip(se.TypedBytesTerminated(lf.spec, (b"\xff",)), v, big, pod, trail)


@dataclasses.dataclass
class DC:
    n: int = se.dataclass_field(se.U16)
    e: E = se.dataclass_field(se.IntEnum(E, se.U8))
    b: bytes = se.dataclass_field(se.ByteArray(se.U8))
    o: int = se.dataclass_field(se.OptionalPrefixed(se.S32), default=None)


@dataclasses.dataclass
class BDC:
    PRIM_SPEC = se.U16
    lo: int = se.bitfield_field(bits=3)
    mid: bool = se.bitfield_field(bits=1, adapter=se.BoolAdapter())
    hi: int = se.bitfield_field(bits=12)


@harness(pre=["0 <= n <= 65535", "0 <= e <= 2", "len(b) <= 2", "-2**31 - 1 <= o < 2**31", "len(trail) <= 1"], post="_",
         timeout=300,
         note="Dataclass spec (U16, IntEnum, ByteArray, OptionalPrefixed(S32) fields): object mode returns an equal "
              "dataclass, pod mode an equal dict, for all field values",
         covers=(_S + "Dataclass.serialize", _S + "Dataclass.deserialize", _S + "DataclassAdapter.encode",
                 _S + "DataclassAdapter.decode", _S + "Dataclass._build_inner_spec"))
def dataclass_spec(n: int, e: int, b: bytes, o: int, big: bool, pod: bool, trail: bytes) -> bool:
    em = E(small(e, 0, 2))
    ov = None if o == -2**31 - 1 else o
    spec = se.Dataclass(DC)
    if pod:
        want = {"n": n, "e": em.name, "b": b, "o": ov}
        return roundtrip(spec, dict(want), big, True, trail, want=want)
    return roundtrip(spec, DC(n=n, e=em, b=b, o=ov), big, False, trail)


@harness(pre=["0 <= lo <= 7", "hi in (0, 1, 0xABC, 0xFFE, 0xFFF)", "len(trail) <= 1"], post="_", timeout=300,
         note="BitfieldDataclass over U16 {lo:3, mid:1 (BoolAdapter), hi:12}: all lo/mid, hi from {0,1,0xABC,0xFFE,0xFFF} "
              "(`|` realizes its operands), object and pod mode",
         covers=(_S + "BitfieldDataclass.decode", _S + "BitfieldDataclass.encode", _S + "BitField.encode", _S + "BitField.decode",
                 "hippolyzer.lib.base.helpers:BitField.pack", "hippolyzer.lib.base.helpers:BitField.unpack"))
def bitfield_dataclass(lo: int, mid: bool, hi: int, big: bool, pod: bool, trail: bytes) -> bool:
    bspec = se.BitfieldDataclass(BDC)
    if pod:
        return roundtrip(bspec, {"lo": lo, "mid": mid, "hi": hi}, big, True, trail)
    return roundtrip(bspec, BDC(lo=lo, mid=mid, hi=hi), big, False, trail)


@harness(pre=["0 <= lo <= 15", "hi in (0, 1, 0xABC, 0xFFE, 0xFFF)", "len(trail) <= 1"], post="_", timeout=300,
         note="unshifted BitField over U16 {lo:4, hi:12} (values kept in place): round trip for all lo, hi from {0,1,0xABC,0xFFE,0xFFF}",
         covers=(_S + "BitField.encode", _S + "BitField.decode", "hippolyzer.lib.base.helpers:BitField.pack",
                 "hippolyzer.lib.base.helpers:BitField.unpack"))
def bitfield_unshifted(lo: int, hi: int, big: bool, pod: bool, trail: bytes) -> bool:
    unshifted = se.BitField(se.U16, {"lo": 4, "hi": 12}, shift=False)
    return roundtrip(unshifted, {"lo": lo, "hi": hi * 16}, big, pod, trail)


def _rejected_or_exact(spec, value, big) -> bool:
    """No silent truncation: the write either raises, or what is read back equals what was written."""
    e = ">" if big else "<"
    w = se.BufferWriter(e)
    try:
        w.write(spec, value)
    except (ValueError, se.struct.error, OverflowError, TypeError):
        return True
    r = se.BufferReader(e, w.copy_buffer())
    return same(r.read(spec), value) and len(r) == 0


@harness(pre=["0 <= c <= 7", "c < 6 or abs(abs(a) - 2**63) <= 3 or abs(a - 2**64) <= 3 or abs(a) <= 3"], post="_", timeout=120,
         note="range limit: for ANY integer (unbounded; 64-bit types: windows of +-3 around 0, +-2^63, 2^64) and every integer primitive the write is rejected or reads back "
              "exactly (never written truncated/wrapped)",
         covers=(_S + "SerializablePrimitive.serialize",))
def limit_int_range(c: int, a: int, big: bool) -> bool:
    return _rejected_or_exact(LEAVES[small(c, 0, 7)].spec, a, big)


@harness(pre=["0 <= k <= 6", "254 <= n <= 257", "fill == 0x41"], post="_", timeout=300,
         note="length limits around the 8-bit boundary (n in 254..257): ByteArray(U8), Str(U8), Collection(U8,..), "
              "TypedByteArray(U8,..), BytesFixed / StrFixed / fixed Collection of the wrong size, BitField overflow: "
              "rejected or exact",
         covers=(_S + "ByteArray.serialize", _S + "Collection.serialize", _S + "BytesFixed.serialize",
                 _S + "StrFixed.serialize", "hippolyzer.lib.base.helpers:BitField.pack"))
def limit_lengths(k: int, n: int, fill: int, big: bool) -> bool:
    k = small(k, 0, 6)
    n = small(n, 254, 257)
    if k == 0:
        return _rejected_or_exact(se.ByteArray(se.U8), bytes([fill]) * n, big)
    if k == 1:
        return fill in (0, ) or fill >= 128 or _rejected_or_exact(se.Str(se.U8), chr(fill) * (n - 1), big)
    if k == 2:
        return _rejected_or_exact(se.Collection(se.U8, se.U8), [fill] * n, big)
    if k == 3:
        return _rejected_or_exact(se.TypedByteArray(se.U8, se.BytesGreedy()), bytes([fill]) * n, big)
    if k == 4:
        return _rejected_or_exact(se.BytesFixed(255), bytes([fill]) * n, big) and \
            _rejected_or_exact(se.Collection(255, se.U8), [fill] * n, big)
    if k == 5:
        # character count and UTF-8 byte count differ for non-ASCII text: the limit is on the bytes written
        for txt in ("é", "éé", "ééé", "ab€", "日本", "a€"):
            if not _rejected_or_exact(se.StrFixed(4), txt, big):
                return False
        return fill == 0 or fill >= 128 or _rejected_or_exact(se.StrFixed(255), chr(fill) * n, big)
    return _rejected_or_exact(se.BitField(se.U16, {"lo": 4, "hi": 12}), {"lo": n - 240, "hi": fill}, big) and \
        _rejected_or_exact(se.BitField(se.U16, {"lo": 4, "hi": 12}, shift=False), {"lo": n - 240, "hi": fill * 16}, big)


@harness(pre=["len(buf) <= 4", "-2 <= n <= 6", "-2 <= pos <= 6"], post="_", raises=(ValueError, IOError), timeout=120,
         note="bounded reads: from ANY buffer (<=4 bytes), ANY seek position and ANY count the reader returns exactly the "
              "requested window or raises; it never reads past the end or before the start",
         covers=(_S + "BufferReader.read_bytes", _S + "BufferReader.seek", _S + "BufferReader.__len__"))
def reader_bounds(buf: bytes, pos: int, n: int) -> bool:
    r = se.BufferReader("<", buf)
    r.seek(pos)
    if not (0 <= pos <= len(buf)):
        return False            # seek must have raised
    left = len(r)
    got = r.read_bytes(n)
    if n < 0:
        return True             # negative counts are not part of the API; only memory-safety matters
    return bytes(got) == buf[pos:pos + n] and len(got) == n and r.tell() == pos + n and len(r) == left - n


EVIDENCE = {
    "bounds": "depth-1 specs over 20 self-delimiting + 6 rest-of-window leaves; depth-2/3 compositions: Tuple/Template/"
              "EnumSwitch/ContextSwitch/FlagSwitch over all pairs of an 8-leaf alphabet, Collection (prefixed, fixed 0..2, "
              "greedy, greedy-in-length-prefixed), optionals and typed-bytes wrappers over all 20 leaves; ints full width, "
              "byte strings <= 2-3, strs <= 2 code points, collections <= 2 entries, trailing bytes <= 2; limits at the "
              "8-bit boundary (254..257)",
    "outside": "float primitives and vectors use exactly representable catalogue constants (C struct on floats is "
               "trusted); numpy adapters and QuantizedFloat/FixedPoint are C10; deeper nestings than listed",
    "assumptions": ["Str/StrFixed/CStr domain excludes NUL characters (documented normal form strips them)",
                    "enum.Flag pseudo-members pre-created for the 8-bit test flag class"],
}

# --- one obligation per selector value (parallel shards) ---------------------------------------
_LN = [_ident_name(l.name) for l in LEAVES]
_PN = [_LN[i] for i in PAIR]
_shard_all(leaf_strings, "c", range(4), ["Str_U8", "Str_U16_nonull", "StrFixed4", "CStr"])
_shard_all(compose_tuple_template, "c1", range(NP), _PN)
_shard_all(switches, "c1", range(NP), _PN)
_shard_all(flag_switch, "c1", range(NP), _PN)
# heavy leaves (64-bit, flag/bitfield realization) are covered at leaf level only; quick tier uses the PAIR alphabet
COMP = [i for i in range(NL) if LEAVES[i].name not in ("U64", "S64", "IntFlag(F,U8)", "BitField(U16,{lo:4,hi:12})")]
_CN = [_LN[i] for i in COMP]
_shard_all(collection_counted, "c", COMP, _CN, quick=PAIR)
_shard_all(collection_greedy_and_wrapped, "c", COMP, _CN, quick=PAIR)
_shard_all(optionals, "c", COMP, _CN, quick=PAIR)
_shard_all(typed_bytes, "c", COMP, _CN, quick=PAIR)
_shard_all(limit_int_range, "c", range(8), _LN[:8])
_shard_all(limit_lengths, "k", range(7), ["ByteArray", "Str", "Collection", "TypedByteArray", "Fixed", "StrFixed", "BitField"])
